//! Schedule explorer for the library's query functions (DESIGN §0.7, engine E6).
//!
//! This program is compiled against a COPY of `unic-langid-impl` / `unic-locale-impl` in which
//! every `std::sync`, `std::thread` and `thread_local!` token has been rewritten to its
//! `shuttle` counterpart, so that every atomic access, lock operation and thread-local access
//! inside the library is a scheduling point of shuttle's controlled scheduler.
//!
//!   harness explore <family>                      all pairs / triples of the family's operations:
//!                                                 exhaustive DFS over schedules of each body
//!   harness replay <family> <combo> <file>        re-executes one persisted schedule (combo: thread
//!                                                 programs separated by ',', operations by '+')
//!
//! Body of one exploration (operations a, b [, c] of the family; r = a fixed reset operation):
//!     r(); a();                       -- warm-up: start from a non-initial, deterministic state
//!     T1: a()   ||  T2: b()  [|| T3: c()]
//!     join; a(); b(); [c()]           -- the state left behind must still answer correctly
//! Every result is compared with the result the same operation gave in a sequential run.
use std::panic::{catch_unwind, AssertUnwindSafe};
use std::sync::{Arc, Mutex};
use unic_langid_impl::{likelysubtags, LanguageIdentifier};
use unic_locale_impl::Locale;

type Op = (String, Box<dyn Fn() -> String + Send + Sync>);

/// `total` mode (property C01): results are not compared, only termination matters (a panic, a
/// deadlock or a livelock under some schedule is still reported by shuttle)
static COMPARE: std::sync::atomic::AtomicBool = std::sync::atomic::AtomicBool::new(true);
macro_rules! check_eq {
    ($a:expr, $b:expr, $($arg:tt)+) => {{
        let (a, b) = ($a, $b);
        if COMPARE.load(std::sync::atomic::Ordering::Relaxed) {
            assert_eq!(a, b, $($arg)+);
        }
    }};
}

fn show(t: Option<(unic_langid_impl::subtags::Language, Option<unic_langid_impl::subtags::Script>, Option<unic_langid_impl::subtags::Region>)>) -> String {
    match t {
        None => "None".into(),
        Some((l, s, r)) => LanguageIdentifier::from_parts(l, s, r, &[]).to_string(),
    }
}

fn ops(family: &str) -> Vec<Op> {
    let mut v: Vec<Op> = vec![];
    match family {
        "maximize" => {
            for k in ["en", "zh-TW", "sr-ME", "und-Cyrl", "en-Latn-US", "xx", "und-419", "pa-PK"] {
                v.push((format!("maximize:method:{}", k), Box::new(move || {
                    let mut li: LanguageIdentifier = k.parse().unwrap();
                    let c = li.maximize();
                    format!("{} {}", c, li)
                })));
                v.push((format!("maximize:free:{}", k), Box::new(move || {
                    let li: LanguageIdentifier = k.parse().unwrap();
                    show(likelysubtags::maximize(li.language, li.script, li.region))
                })));
            }
        }
        "minimize" => {
            for k in ["en-Latn-US", "zh-Hant-TW", "sr-Latn-ME", "und-Cyrl-RU", "en", "xx-Latn-ZZ", "zh-Hani", "pa-Arab-PK"] {
                v.push((format!("minimize:method:{}", k), Box::new(move || {
                    let mut li: LanguageIdentifier = k.parse().unwrap();
                    let c = li.minimize();
                    format!("{} {}", c, li)
                })));
                v.push((format!("minimize:free:{}", k), Box::new(move || {
                    let li: LanguageIdentifier = k.parse().unwrap();
                    show(likelysubtags::minimize(li.language, li.script, li.region))
                })));
            }
        }
        "direction" => {
            for k in ["ar", "en", "pa-PK", "mn-Mong", "az-Arab", "und-Hebr", "uz-AF", "pa"] {
                v.push((format!("direction:{}", k), Box::new(move || {
                    let li: LanguageIdentifier = k.parse().unwrap();
                    format!("{:?}", li.character_direction())
                })));
            }
        }
        "parse" => {
            for k in ["EN_latn_us-VALENCIA-u-ca-buddhist", "en-t-de-h0-hybrid-x-a", "und", "e", "sr-Cyrl-RS-u-nu-latn-abc", "en-x-b-a", "en-a-foo", "de-1996-fonipa-1996"] {
                v.push((format!("parse:locale:{}", k), Box::new(move || match Locale::from_bytes(k.as_bytes()) {
                    Ok(l) => format!("Ok({})", l),
                    Err(e) => format!("Err({:?})", e),
                })));
                v.push((format!("parse:langid:{}", k), Box::new(move || match unic_langid_impl::canonicalize(k) {
                    Ok(l) => format!("Ok({})", l),
                    Err(e) => format!("Err({:?})", e),
                })));
            }
        }
        "mutate" => {
            // each operation builds its own value and mutates it: private objects, so any
            // cross-talk can only come from state the library shares behind the scenes
            v.push(("mutate:variants".into(), Box::new(|| {
                let mut l: Locale = "en-US-u-ca-buddhist".parse().unwrap();
                l.id.set_variants(&["valencia".parse().unwrap(), "1996".parse().unwrap(), "valencia".parse().unwrap()]);
                let a = l.to_string();
                l.id.clear_variants();
                format!("{} {}", a, l)
            })));
            v.push(("mutate:variants2".into(), Box::new(|| {
                let mut l: LanguageIdentifier = "de".parse().unwrap();
                l.set_variants(&["fonipa".parse().unwrap(), "1901".parse().unwrap()]);
                format!("{} {}", l, l.has_variant("1901".parse().unwrap()))
            })));
            v.push(("mutate:attributes".into(), Box::new(|| {
                let mut l: Locale = "en".parse().unwrap();
                let u = &mut l.extensions.unicode;
                let r = (u.set_attribute("zzz").is_ok(), u.set_attribute("ABC").is_ok(), u.set_attribute("mmm").is_ok(), u.remove_attribute("abc").ok(), u.set_attribute("a-b").is_ok());
                format!("{:?} {}", r, l)
            })));
            v.push(("mutate:keywords".into(), Box::new(|| {
                let mut l: Locale = "en-u-nu-thai".parse().unwrap();
                let u = &mut l.extensions.unicode;
                let r = (u.set_keyword("CA", &["buddhist", "true"]).is_ok(), u.set_keyword("hc", &[]).is_ok(), u.remove_keyword("nu").ok(), u.set_keyword("c", &["x"]).is_ok());
                format!("{:?} {}", r, l)
            })));
            v.push(("mutate:transform".into(), Box::new(|| {
                let mut l: Locale = "en-t-h0-hybrid".parse().unwrap();
                let t = &mut l.extensions.transform;
                let r = (t.set_tlang("DE_latn-fonipa".parse().unwrap()).is_ok(), t.set_tfield("K1", &["foo", "TRUE"]).is_ok(), t.remove_tfield("h0").ok(), t.set_tfield("1k", &["x"]).is_ok());
                format!("{:?} {}", r, l)
            })));
            v.push(("mutate:private".into(), Box::new(|| {
                let mut l: Locale = "en-x-zz".parse().unwrap();
                let p = &mut l.extensions.private;
                let r = (p.add_tag("B").is_ok(), p.add_tag("a").is_ok(), p.add_tag("a").is_ok(), p.remove_tag("zz").ok(), p.add_tag("").is_ok());
                format!("{:?} {}", r, l)
            })));
            v.push(("mutate:from_parts".into(), Box::new(|| {
                let l = Locale::from_parts("sr".parse().unwrap(), Some("Cyrl".parse().unwrap()), None, &["ekavsk".parse().unwrap(), "1996".parse().unwrap(), "ekavsk".parse().unwrap()], Some("u-nu-latn-x-a".parse().unwrap()));
                let s = l.to_string();
                let (a, b, c, d, e) = l.into_parts();
                format!("{} {} {:?} {:?} {} {}", s, a, b.map(|x| x.to_string()), c.map(|x| x.to_string()), d.len(), e)
            })));
            v.push(("mutate:fields".into(), Box::new(|| {
                let mut l: Locale = "und".parse().unwrap();
                l.id.language = "ZH".parse().unwrap();
                l.id.script = Some("hant".parse().unwrap());
                l.id.region = Some("tw".parse().unwrap());
                let a = l.to_string();
                l.id.language.clear();
                l.id.script = None;
                format!("{} {} {}", a, l, l.matches(&"und-TW".parse::<Locale>().unwrap(), false, false))
            })));
        }
        "shared" => {
            // several threads read ONE value (shared by reference): getters, serialisation,
            // comparison, hashing, matching; and a clone mutated while the original is read
            // (the values are built under the shuttle runtime: a library that touches a
            // synchronisation primitive or a thread-local while parsing can only run there)
            let (a, b, c) = under_shuttle(|| {
                let a: Arc<Locale> = Arc::new("en-Latn-US-valencia-u-abc-ca-buddhist-t-de-h0-hybrid-x-a".parse().unwrap());
                let b: Arc<Locale> = Arc::new("EN_latn_us_VALENCIA_t_de_h0_hybrid_u_abc_ca_buddhist_x_a".parse().unwrap());
                let c: Arc<Locale> = Arc::new("ar-EG-u-nu-arab".parse().unwrap());
                (a, b, c)
            });
            let x = a.clone();
            v.push(("shared:to_string".into(), Box::new(move || format!("{} {}", x, x.id))));
            let x = a.clone();
            v.push(("shared:getters".into(), Box::new(move || {
                format!("{:?} {:?} {:?} {:?} {:?} {:?} {}", x.extensions.unicode.attributes().collect::<Vec<_>>(), x.extensions.unicode.keyword("ca").map(|i| i.collect::<Vec<_>>()).ok(),
                    x.extensions.transform.tlang().map(|t| t.to_string()), x.extensions.transform.tfield("h0").map(|i| i.collect::<Vec<_>>()).ok(),
                    x.extensions.private.tags().collect::<Vec<_>>(), x.id.variants().map(|v| v.as_str()).collect::<Vec<_>>(), x.extensions.is_empty())
            })));
            let (x, y, z) = (a.clone(), b.clone(), c.clone());
            v.push(("shared:compare".into(), Box::new(move || {
                use std::hash::{Hash, Hasher};
                let h = |l: &Locale| { let mut s = std::collections::hash_map::DefaultHasher::new(); l.hash(&mut s); s.finish() };
                format!("{} {} {:?} {:?} {} {}", *x == *y, *x == *z, x.cmp(&y), x.cmp(&z), h(&x) == h(&y), x.id == "en-Latn-US-valencia")
            })));
            let (x, y, z) = (a.clone(), b.clone(), c.clone());
            v.push(("shared:matches".into(), Box::new(move || {
                format!("{} {} {} {}", x.matches(&*y, false, false), x.id.matches(&y.id, true, true), z.matches(&*z, false, false), z.id.matches(&*x, true, false))
            })));
            let (x, z) = (a.clone(), c.clone());
            v.push(("shared:direction".into(), Box::new(move || format!("{:?} {:?}", x.id.character_direction(), z.id.character_direction()))));
            let x = a.clone();
            v.push(("shared:clone_mutate".into(), Box::new(move || {
                let mut m: Locale = (*x).clone();
                m.id.clear_variants();
                let _ = m.extensions.unicode.set_attribute("zzz");
                let _ = m.extensions.private.add_tag("b");
                m.id.region = None;
                format!("{} | {}", m, x)
            })));
            let z = c.clone();
            v.push(("shared:to_string2".into(), Box::new(move || format!("{} {:?}", z, z.id.language.as_str()))));
            let (x, y) = (a.clone(), b.clone());
            v.push(("shared:into_parts".into(), Box::new(move || {
                let (l, s, r, vs, e) = (*x).clone().into_parts();
                let back = Locale::from_parts(l, s, r, &vs, Some(e.parse().unwrap()));
                format!("{} {}", back == *y, back)
            })));
        }
        _ => {
            eprintln!("unknown family {}", family);
            std::process::exit(2);
        }
    }
    v
}

/// runs `f` once under the shuttle runtime (single schedule) and hands its value out
fn under_shuttle<T: Send + 'static>(f: impl Fn() -> T + Send + Sync + 'static) -> T {
    let slot: Arc<std::sync::Mutex<Option<T>>> = Arc::new(std::sync::Mutex::new(None));
    let s2 = slot.clone();
    shuttle::Runner::new(shuttle::scheduler::DfsScheduler::new(Some(1), false), shuttle::Config::new()).run(move || {
        *s2.lock().unwrap() = Some(f());
    });
    let v = slot.lock().unwrap().take().expect("the one-shot shuttle run produced no value");
    v
}

fn reset_op() -> Box<dyn Fn() -> String + Send + Sync> {
    Box::new(|| {
        let mut li: LanguageIdentifier = "de".parse().unwrap();
        li.maximize();
        let mut lj: LanguageIdentifier = "de-Latn-DE".parse().unwrap();
        lj.minimize();
        format!("{} {} {:?}", li, lj, li.character_direction())
    })
}

fn config(dir: &str) -> shuttle::Config {
    let mut c = shuttle::Config::new();
    c.failure_persistence = shuttle::FailurePersistence::File(Some(std::path::PathBuf::from(dir)));
    c.silence_warnings = true;
    c
}

/// `prog[t]` = the operations thread t performs, in order; the warm-up runs the first operation
/// of thread 0, the epilogue runs every operation once more on the main thread
fn body(ops: &Arc<Vec<Op>>, reset: &Arc<Box<dyn Fn() -> String + Send + Sync>>, exp: &Arc<Vec<String>>, exp_reset: &Arc<String>, prog: &[Vec<usize>]) -> impl Fn() + Send + Sync + 'static {
    let (ops, reset, exp, exp_reset, prog) = (ops.clone(), reset.clone(), exp.clone(), exp_reset.clone(), prog.to_vec());
    move || {
        check_eq!(reset(), exp_reset.to_string(), "reset operation (warm-up)");
        let w = prog[0][0];
        check_eq!((ops[w].1)(), exp[w].clone(), "{} (warm-up)", ops[w].0);
        let hs: Vec<_> = prog
            .iter()
            .map(|p| {
                let (ops, p) = (ops.clone(), p.clone());
                shuttle::thread::spawn(move || p.iter().map(|&i| (ops[i].1)()).collect::<Vec<String>>())
            })
            .collect();
        let rs: Vec<Vec<String>> = hs.into_iter().map(|h| h.join().unwrap()).collect();
        for (n, p) in prog.iter().enumerate() {
            for (k, &i) in p.iter().enumerate() {
                check_eq!(rs[n][k].clone(), exp[i].clone(), "{} (call {} of thread {} of {})", ops[i].0, k + 1, n + 1, prog.len());
            }
        }
        for p in &prog {
            for &i in p {
                check_eq!((ops[i].1)(), exp[i].clone(), "{} (after the threads joined)", ops[i].0);
            }
        }
    }
}

fn panic_text(e: Box<dyn std::any::Any + Send>) -> String {
    if let Some(s) = e.downcast_ref::<String>() {
        s.clone()
    } else if let Some(s) = e.downcast_ref::<&str>() {
        s.to_string()
    } else {
        "?".into()
    }
}

fn esc(s: &str) -> String {
    let mut o = String::new();
    for c in s.chars() {
        match c {
            '"' => o.push_str("\\\""),
            '\\' => o.push_str("\\\\"),
            '\n' => o.push_str("\\n"),
            c if (c as u32) < 0x20 => o.push_str(&format!("\\u{:04x}", c as u32)),
            c => o.push(c),
        }
    }
    o
}

fn sequential(ops: &Arc<Vec<Op>>, reset: &Arc<Box<dyn Fn() -> String + Send + Sync>>, dir: &str) -> Result<(Vec<String>, String), String> {
    // under the shuttle runtime (the rewritten primitives only work there), one task
    let out: Arc<Mutex<(Vec<String>, String, Vec<String>)>> = Arc::new(Mutex::new((vec![], String::new(), vec![])));
    let (o2, ops2, reset2) = (out.clone(), ops.clone(), reset.clone());
    let r = catch_unwind(AssertUnwindSafe(|| {
        let runner = shuttle::Runner::new(shuttle::scheduler::DfsScheduler::new(Some(1), false), config(dir));
        runner.run(move || {
            let mut g = o2.lock().unwrap();
            g.0.clear();
            g.2.clear();
            g.1 = reset2();
            for (name, f) in ops2.iter() {
                let a = f();
                let b = f();
                let c = reset2();
                let d = f();
                if a != b || a != d || c != g.1 {
                    let msg = format!("{}: {} / {} / {} (reset {} / {})", name, a, b, d, g.1, c);
                    g.2.push(msg);
                }
                g.0.push(a);
            }
        })
    }));
    if let Err(e) = r {
        return Err(format!("sequential run panicked: {}", panic_text(e)));
    }
    let g = out.lock().unwrap();
    if !g.2.is_empty() && COMPARE.load(std::sync::atomic::Ordering::Relaxed) {
        return Err(format!("history-dependent results in a sequential run: {}", g.2.join("; ")));
    }
    Ok((g.0.clone(), g.1.clone()))
}

fn main() {
    let args: Vec<String> = std::env::args().collect();
    if args.len() < 3 {
        eprintln!("usage: harness explore <family> <schedule-dir> | harness replay <family> <combo> <schedule-file>");
        std::process::exit(2);
    }
    let family = args[2].as_str();
    if args.iter().any(|a| a == "--total") {
        COMPARE.store(false, std::sync::atomic::Ordering::Relaxed);
    }
    let ops = Arc::new(ops(family));
    let reset = Arc::new(reset_op());
    match args[1].as_str() {
        "explore" => {
            let dir = args.get(3).cloned().unwrap_or_else(|| ".".into());
            let _ = std::fs::create_dir_all(&dir);
            let (exp, exp_reset) = match sequential(&ops, &reset, &dir) {
                Ok(x) => x,
                Err(e) => {
                    println!("{{\"family\":\"{}\",\"sequential_failure\":\"{}\"}}", family, esc(&e));
                    return;
                }
            };
            let (exp, exp_reset) = (Arc::new(exp), Arc::new(exp_reset));
            let n = ops.len();
            let mut combos: Vec<Vec<Vec<usize>>> = vec![];
            for i in 0..n {
                for j in 0..n {
                    combos.push(vec![vec![i], vec![j]]);
                }
            }
            let m = n.min(5);
            for i in 0..m {
                for j in 0..m {
                    for k in 0..m {
                        combos.push(vec![vec![i], vec![j], vec![k]]);
                    }
                }
            }
            if args.iter().any(|a| a == "--deep") {
                // two calls per thread: T1: a; b || T2: c; d  over the first four operations,
                // and T1: a; b || T2: b; a over all pairs
                let q = n.min(4);
                for a in 0..q {
                    for b in 0..q {
                        for c in 0..q {
                            for d in 0..q {
                                combos.push(vec![vec![a, b], vec![c, d]]);
                            }
                        }
                    }
                }
                for a in 0..n {
                    for b in 0..n {
                        if a >= q || b >= q {
                            combos.push(vec![vec![a, b], vec![b, a]]);
                        }
                    }
                }
            }
            let mut schedules = 0u64;
            let mut explored = 0u64;
            let mut max_sched = 0u64;
            let mut failure = String::new();
            for c in &combos {
                // one warming execution (caches that only grow reach their fixed point), then DFS
                let b0 = body(&ops, &reset, &exp, &exp_reset, c);
                let warm = catch_unwind(AssertUnwindSafe(|| {
                    shuttle::Runner::new(shuttle::scheduler::DfsScheduler::new(Some(1), false), config(&dir)).run(b0)
                }));
                let res = match warm {
                    Err(e) => Err(e),
                    Ok(_) => {
                        let b = body(&ops, &reset, &exp, &exp_reset, c);
                        catch_unwind(AssertUnwindSafe(|| {
                            shuttle::Runner::new(shuttle::scheduler::DfsScheduler::new(None, false), config(&dir)).run(b)
                        }))
                    }
                };
                match res {
                    Ok(it) => {
                        schedules += it as u64 + 1;
                        max_sched = max_sched.max(it as u64);
                        explored += 1;
                    }
                    Err(e) => {
                        // newest schedule file in dir
                        let mut files: Vec<_> = std::fs::read_dir(&dir).map(|d| d.filter_map(|e| e.ok()).map(|e| e.path()).collect()).unwrap_or_default();
                        files.sort();
                        let file = files.last().map(|p| p.display().to_string()).unwrap_or_default();
                        failure = format!(
                            ",\"failure\":{{\"combo\":\"{}\",\"ops\":[{}],\"message\":\"{}\",\"schedule_file\":\"{}\"}}",
                            c.iter().map(|p| p.iter().map(|x| x.to_string()).collect::<Vec<_>>().join("+")).collect::<Vec<_>>().join(","),
                            c.iter().map(|p| format!("\"{}\"", esc(&p.iter().map(|&x| ops[x].0.clone()).collect::<Vec<_>>().join("; ")))).collect::<Vec<_>>().join(","),
                            esc(&panic_text(e)),
                            esc(&file)
                        );
                        break;
                    }
                }
            }
            println!(
                "{{\"family\":\"{}\",\"ops\":[{}],\"sequential\":[{}],\"combos\":{},\"combos_explored\":{},\"schedules\":{},\"max_schedules_per_combo\":{}{}}}",
                family,
                ops.iter().map(|o| format!("\"{}\"", esc(&o.0))).collect::<Vec<_>>().join(","),
                exp.iter().map(|o| format!("\"{}\"", esc(o))).collect::<Vec<_>>().join(","),
                combos.len(),
                explored,
                schedules,
                max_sched,
                failure
            );
        }
        "replay" => {
            // <combo> = thread programs separated by ',', operations of a thread by '+'
            let prog: Vec<Vec<usize>> = args[3].split(',').map(|p| p.split('+').map(|x| x.parse().expect("index")).collect()).collect();
            let file = &args[4];
            let dir = std::path::Path::new(file).parent().map(|p| p.display().to_string()).unwrap_or_else(|| ".".into());
            let (exp, exp_reset) = match sequential(&ops, &reset, &dir) {
                Ok(x) => x,
                Err(e) => {
                    println!("SEQUENTIAL-FAILURE {}", e);
                    return;
                }
            };
            let b = body(&ops, &reset, &Arc::new(exp), &Arc::new(exp_reset), &prog);
            match catch_unwind(AssertUnwindSafe(|| shuttle::replay_from_file(b, file))) {
                Ok(_) => println!("NOT-REPRODUCED"),
                Err(e) => println!("REPRODUCED {}", panic_text(e).replace('\n', " ")),
            }
        }
        _ => std::process::exit(2),
    }
}

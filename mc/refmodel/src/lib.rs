//! Reference models (DESIGN.md §3). Deliberately boring, `std` only, and with no
//! dependency on the crates under test.
//!
//!  * token predicates of the UTS #35 EBNF,
//!  * the LanguageIdentifier oracle (two-valued, with the error kind),
//!  * the Locale recogniser with its zones,
//!  * the value model `MLangId` / `MLocale`, its canonical string, and the model
//!    counterpart of every public mutator,
//!  * the likely-subtags reference (dictionary semantics) and the direction reference.

use std::collections::{BTreeMap, BTreeSet};

pub mod likely;

// ------------------------------------------------------------------------------------------
// byte / token predicates
// ------------------------------------------------------------------------------------------

#[inline]
pub fn is_alpha(b: u8) -> bool {
    (b'a'..=b'z').contains(&b) || (b'A'..=b'Z').contains(&b)
}
#[inline]
pub fn is_digit(b: u8) -> bool {
    (b'0'..=b'9').contains(&b)
}
#[inline]
pub fn is_alnum(b: u8) -> bool {
    is_alpha(b) || is_digit(b)
}
#[inline]
pub fn all_alpha(t: &[u8]) -> bool {
    t.iter().all(|b| is_alpha(*b))
}
#[inline]
pub fn all_digit(t: &[u8]) -> bool {
    t.iter().all(|b| is_digit(*b))
}
#[inline]
pub fn all_alnum(t: &[u8]) -> bool {
    t.iter().all(|b| is_alnum(*b))
}

pub fn is_lang(t: &[u8]) -> bool {
    let n = t.len();
    ((2..=3).contains(&n) || (5..=8).contains(&n)) && all_alpha(t)
}
pub fn is_script(t: &[u8]) -> bool {
    t.len() == 4 && all_alpha(t)
}
pub fn is_region(t: &[u8]) -> bool {
    (t.len() == 2 && all_alpha(t)) || (t.len() == 3 && all_digit(t))
}
pub fn is_variant(t: &[u8]) -> bool {
    let n = t.len();
    ((5..=8).contains(&n) && all_alnum(t)) || (n == 4 && is_digit(t[0]) && all_alnum(&t[1..]))
}
/// attribute / type / tvalue
pub fn is_attr(t: &[u8]) -> bool {
    (3..=8).contains(&t.len()) && all_alnum(t)
}
pub fn is_ukey(t: &[u8]) -> bool {
    t.len() == 2 && is_alnum(t[0]) && is_alpha(t[1])
}
pub fn is_tkey(t: &[u8]) -> bool {
    t.len() == 2 && is_alpha(t[0]) && is_digit(t[1])
}
pub fn is_ptag(t: &[u8]) -> bool {
    (1..=8).contains(&t.len()) && all_alnum(t)
}
pub fn is_othersub(t: &[u8]) -> bool {
    (2..=8).contains(&t.len()) && all_alnum(t)
}

pub fn lower(t: &[u8]) -> String {
    t.iter().map(|b| b.to_ascii_lowercase() as char).collect()
}
pub fn upper(t: &[u8]) -> String {
    t.iter().map(|b| b.to_ascii_uppercase() as char).collect()
}
pub fn title(t: &[u8]) -> String {
    t.iter()
        .enumerate()
        .map(|(i, b)| {
            if i == 0 {
                b.to_ascii_uppercase() as char
            } else {
                b.to_ascii_lowercase() as char
            }
        })
        .collect()
}

pub fn split_tokens(b: &[u8]) -> Vec<&[u8]> {
    b.split(|c| *c == b'-' || *c == b'_').collect()
}

// ------------------------------------------------------------------------------------------
// value model
// ------------------------------------------------------------------------------------------

#[derive(Clone, Debug, Default, PartialEq, Eq, Hash, PartialOrd, Ord)]
pub struct MLangId {
    /// `None` = undetermined (`und`)
    pub lang: Option<String>,
    pub script: Option<String>,
    pub region: Option<String>,
    pub variants: BTreeSet<String>,
}

#[derive(Clone, Debug, Default, PartialEq, Eq, Hash, PartialOrd, Ord)]
pub struct MLocale {
    pub id: MLangId,
    pub attrs: BTreeSet<String>,
    pub keywords: BTreeMap<String, Vec<String>>,
    pub tlang: Option<MLangId>,
    pub tfields: BTreeMap<String, Vec<String>>,
    /// sorted multiset
    pub tags: Vec<String>,
}

impl MLangId {
    pub fn canon(&self) -> String {
        let mut s = String::new();
        s.push_str(self.lang.as_deref().unwrap_or("und"));
        if let Some(x) = &self.script {
            s.push('-');
            s.push_str(x);
        }
        if let Some(x) = &self.region {
            s.push('-');
            s.push_str(x);
        }
        for v in &self.variants {
            s.push('-');
            s.push_str(v);
        }
        s
    }
    /// the ordering C12 states: language, script, region, variants; absent first.
    pub fn cmp_key(&self) -> (Option<&str>, Option<&str>, Option<&str>, Option<Vec<&str>>) {
        (
            self.lang.as_deref(),
            self.script.as_deref(),
            self.region.as_deref(),
            if self.variants.is_empty() {
                None
            } else {
                Some(self.variants.iter().map(|s| s.as_str()).collect())
            },
        )
    }
}

impl MLocale {
    pub fn ext_is_empty(&self) -> bool {
        self.u_is_empty() && self.t_is_empty() && self.tags.is_empty()
    }
    pub fn u_is_empty(&self) -> bool {
        self.attrs.is_empty() && self.keywords.is_empty()
    }
    pub fn t_is_empty(&self) -> bool {
        self.tlang.is_none() && self.tfields.is_empty()
    }
    /// canonical extension string (with its leading '-' when non-empty)
    pub fn canon_ext(&self) -> String {
        let mut s = String::new();
        if !self.t_is_empty() {
            s.push_str("-t");
            if let Some(tl) = &self.tlang {
                s.push('-');
                s.push_str(&tl.canon());
            }
            for (k, vs) in &self.tfields {
                s.push('-');
                s.push_str(k);
                for v in vs {
                    s.push('-');
                    s.push_str(v);
                }
            }
        }
        if !self.u_is_empty() {
            s.push_str("-u");
            for a in &self.attrs {
                s.push('-');
                s.push_str(a);
            }
            for (k, vs) in &self.keywords {
                s.push('-');
                s.push_str(k);
                for v in vs {
                    s.push('-');
                    s.push_str(v);
                }
            }
        }
        if !self.tags.is_empty() {
            s.push_str("-x");
            for t in &self.tags {
                s.push('-');
                s.push_str(t);
            }
        }
        s
    }
    pub fn canon(&self) -> String {
        let mut s = self.id.canon();
        s.push_str(&self.canon_ext());
        s
    }
}

// ------------------------------------------------------------------------------------------
// language-identifier oracle
// ------------------------------------------------------------------------------------------

#[derive(Clone, Debug, PartialEq, Eq)]
pub enum LangIdVerdict {
    Accept(MLangId),
    InvalidLanguage,
    InvalidSubtag,
}

/// Parses `language (script)? (region)? (variant)*` starting at token `i`; returns the value and
/// the index of the first token that was not consumed. `Err(())` iff token i is not a language.
pub fn langid_prefix(tokens: &[&[u8]], mut i: usize) -> Result<(MLangId, usize), ()> {
    if i >= tokens.len() || !is_lang(tokens[i]) {
        return Err(());
    }
    let mut m = MLangId::default();
    let l = lower(tokens[i]);
    m.lang = if l == "und" { None } else { Some(l) };
    i += 1;
    if i < tokens.len() && is_script(tokens[i]) {
        m.script = Some(title(tokens[i]));
        i += 1;
    }
    if i < tokens.len() && is_region(tokens[i]) {
        m.region = Some(upper(tokens[i]));
        i += 1;
    }
    while i < tokens.len() && is_variant(tokens[i]) {
        m.variants.insert(lower(tokens[i]));
        i += 1;
    }
    Ok((m, i))
}

pub fn langid_oracle(input: &[u8]) -> LangIdVerdict {
    let tokens = split_tokens(input);
    match langid_prefix(&tokens, 0) {
        Err(()) => LangIdVerdict::InvalidLanguage,
        Ok((m, i)) => {
            if i == tokens.len() {
                LangIdVerdict::Accept(m)
            } else {
                LangIdVerdict::InvalidSubtag
            }
        }
    }
}

// ------------------------------------------------------------------------------------------
// locale recogniser
// ------------------------------------------------------------------------------------------

#[derive(Clone, Copy, Debug, PartialEq, Eq)]
pub enum Mode {
    /// UTS #35 exactly.
    Strict,
    /// UTS #35, except that a tkey may stand without a tvalue (the library's serialiser prints
    /// that for a field whose only value was `true`; DESIGN §6.2).
    StrictBareTkey,
    /// additionally tolerates empty extension bodies, empty subtags at extension boundaries
    /// and well-formed `other` extensions.
    Lenient,
}

#[derive(Clone, Debug, PartialEq, Eq)]
pub struct Accepted {
    pub value: MLocale,
    /// an `other` (not t/u/x) extension was consumed (its content is not in `value`)
    pub used_other: bool,
    /// a keyword key or tfield key occurred twice (out of scope for C03)
    pub dup_key: bool,
    /// number of tokens of the language-id prefix
    pub id_tokens: usize,
    /// automaton (state, token-class) pairs visited, for the vacuity guard
    pub trace: u64,
}

/// automaton-coverage bits (vacuity guard): which branches of the recogniser were taken.
pub mod cov {
    pub const SCRIPT: u64 = 1 << 0;
    pub const REGION: u64 = 1 << 1;
    pub const VARIANT: u64 = 1 << 2;
    pub const U: u64 = 1 << 3;
    pub const U_ATTR: u64 = 1 << 4;
    pub const U_KEY: u64 = 1 << 5;
    pub const U_TYPE: u64 = 1 << 6;
    pub const U_TRUE: u64 = 1 << 7;
    pub const T: u64 = 1 << 8;
    pub const T_LANG: u64 = 1 << 9;
    pub const T_KEY: u64 = 1 << 10;
    pub const T_VALUE: u64 = 1 << 11;
    pub const T_TRUE: u64 = 1 << 12;
    pub const X: u64 = 1 << 13;
    pub const X_TAG: u64 = 1 << 14;
    pub const OTHER: u64 = 1 << 15;
    pub const EMPTY_SKIPPED: u64 = 1 << 16;
    pub const EMPTY_BODY: u64 = 1 << 17;
    pub const BARE_TKEY: u64 = 1 << 18;
    pub const DUP_KEY: u64 = 1 << 19;
    pub const U_AFTER_T: u64 = 1 << 20;
    pub const T_AFTER_U: u64 = 1 << 21;
    pub const ALL: u64 = (1 << 22) - 1;
    pub const NAMES: [&str; 22] = [
        "script", "region", "variant", "u", "u_attr", "u_key", "u_type", "u_true", "t", "t_lang",
        "t_key", "t_value", "t_true", "x", "x_tag", "other", "empty_skipped", "empty_body",
        "bare_tkey", "dup_key", "u_after_t", "t_after_u",
    ];
}

pub fn run_locale(tokens: &[&[u8]], mode: Mode) -> Option<Accepted> {
    let lenient = mode == Mode::Lenient;
    let bare_tkey_ok = mode != Mode::Strict;
    let (id, mut i) = langid_prefix(tokens, 0).ok()?;
    let id_tokens = i;
    let mut trace = 0u64;
    if id.script.is_some() {
        trace |= cov::SCRIPT;
    }
    if id.region.is_some() {
        trace |= cov::REGION;
    }
    if !id.variants.is_empty() {
        trace |= cov::VARIANT;
    }
    let mut v = MLocale {
        id,
        ..Default::default()
    };
    let n = tokens.len();
    let (mut seen_u, mut seen_t) = (false, false);
    let mut seen_other: BTreeSet<u8> = BTreeSet::new();
    let mut used_other = false;
    let mut dup_key = false;
    while i < n {
        let tok = tokens[i];
        if tok.is_empty() {
            if lenient {
                trace |= cov::EMPTY_SKIPPED;
                i += 1;
                continue;
            }
            return None;
        }
        if tok.len() != 1 || !is_alnum(tok[0]) {
            return None;
        }
        let c = tok[0].to_ascii_lowercase();
        i += 1;
        match c {
            b'u' => {
                if seen_u {
                    return None;
                }
                seen_u = true;
                trace |= cov::U;
                if seen_t {
                    trace |= cov::U_AFTER_T;
                }
                let start = i;
                while i < n && is_attr(tokens[i]) {
                    v.attrs.insert(lower(tokens[i]));
                    trace |= cov::U_ATTR;
                    i += 1;
                }
                while i < n && is_ukey(tokens[i]) {
                    let k = lower(tokens[i]);
                    trace |= cov::U_KEY;
                    i += 1;
                    let mut types = vec![];
                    while i < n && is_attr(tokens[i]) {
                        let t = lower(tokens[i]);
                        if t == "true" {
                            trace |= cov::U_TRUE;
                        } else {
                            trace |= cov::U_TYPE;
                            types.push(t);
                        }
                        i += 1;
                    }
                    if v.keywords.insert(k, types).is_some() {
                        dup_key = true;
                        trace |= cov::DUP_KEY;
                    }
                }
                if i == start {
                    if !lenient {
                        return None;
                    }
                    trace |= cov::EMPTY_BODY;
                }
            }
            b't' => {
                if seen_t {
                    return None;
                }
                seen_t = true;
                trace |= cov::T;
                if seen_u {
                    trace |= cov::T_AFTER_U;
                }
                let start = i;
                if i < n && is_lang(tokens[i]) {
                    let (tl, j) = langid_prefix(tokens, i).ok()?;
                    v.tlang = Some(tl);
                    trace |= cov::T_LANG;
                    i = j;
                }
                while i < n && is_tkey(tokens[i]) {
                    let k = lower(tokens[i]);
                    trace |= cov::T_KEY;
                    i += 1;
                    let mut vals = vec![];
                    let vstart = i;
                    while i < n && is_attr(tokens[i]) {
                        let t = lower(tokens[i]);
                        if t == "true" {
                            trace |= cov::T_TRUE;
                        } else {
                            trace |= cov::T_VALUE;
                            vals.push(t);
                        }
                        i += 1;
                    }
                    if i == vstart {
                        if !bare_tkey_ok {
                            return None;
                        }
                        trace |= cov::BARE_TKEY;
                    }
                    if v.tfields.insert(k, vals).is_some() {
                        dup_key = true;
                        trace |= cov::DUP_KEY;
                    }
                }
                if i == start {
                    if !lenient {
                        return None;
                    }
                    trace |= cov::EMPTY_BODY;
                }
            }
            b'x' => {
                trace |= cov::X;
                let mut end = n;
                if lenient {
                    while end > i && tokens[end - 1].is_empty() {
                        end -= 1;
                        trace |= cov::EMPTY_SKIPPED;
                    }
                }
                if end == i {
                    if !lenient {
                        return None;
                    }
                    trace |= cov::EMPTY_BODY;
                }
                for t in &tokens[i..end] {
                    if !is_ptag(t) {
                        return None;
                    }
                    trace |= cov::X_TAG;
                    v.tags.push(lower(t));
                }
                v.tags.sort();
                i = n;
            }
            other => {
                if !seen_other.insert(other) {
                    return None;
                }
                if !lenient {
                    return None;
                }
                trace |= cov::OTHER;
                let start = i;
                while i < n && is_othersub(tokens[i]) {
                    i += 1;
                }
                if i == start {
                    trace |= cov::EMPTY_BODY;
                }
                used_other = true;
            }
        }
    }
    Some(Accepted {
        value: v,
        used_other,
        dup_key,
        id_tokens,
        trace,
    })
}

#[derive(Clone, Debug, PartialEq, Eq)]
pub enum Zone {
    /// strict accepts with this value
    MustAccept(MLocale),
    /// only the lenient recogniser accepts (no `other`): Err, or Ok with this value
    Either(MLocale),
    /// lenient accepts through an `other` extension: Err or Ok (only `id` is comparable)
    EitherUnchecked(MLocale),
    MustReject,
    /// duplicate keyword / tfield key: nothing demanded under C03
    OutOfScope,
}

impl Zone {
    pub fn name(&self) -> &'static str {
        match self {
            Zone::MustAccept(_) => "must_accept",
            Zone::Either(_) => "either",
            Zone::EitherUnchecked(_) => "either_unchecked",
            Zone::MustReject => "must_reject",
            Zone::OutOfScope => "out_of_scope",
        }
    }
    pub fn index(&self) -> usize {
        match self {
            Zone::MustAccept(_) => 0,
            Zone::Either(_) => 1,
            Zone::EitherUnchecked(_) => 2,
            Zone::MustReject => 3,
            Zone::OutOfScope => 4,
        }
    }
}
pub const ZONE_NAMES: [&str; 5] = [
    "must_accept",
    "either",
    "either_unchecked",
    "must_reject",
    "out_of_scope",
];

/// Three-zone classification of DESIGN §3.1; also returns the coverage bits.
pub fn locale_zone(input: &[u8]) -> (Zone, u64) {
    let tokens = split_tokens(input);
    if let Some(a) = run_locale(&tokens, Mode::Strict) {
        let z = if a.dup_key {
            Zone::OutOfScope
        } else {
            Zone::MustAccept(a.value)
        };
        return (z, a.trace);
    }
    match run_locale(&tokens, Mode::Lenient) {
        None => (Zone::MustReject, 0),
        Some(a) => {
            let z = if a.dup_key {
                Zone::OutOfScope
            } else if a.used_other {
                Zone::EitherUnchecked(a.value)
            } else {
                Zone::Either(a.value)
            };
            (z, a.trace)
        }
    }
}

/// Is `s` (a `to_string()` output) a well-formed canonical identifier?  Returns the reason
/// when it is not.  "Well-formed" = accepted by the strict recogniser (a bare tkey tolerated,
/// §6.2), no `other` extension; "canonical" = the canonical string of the recognised value is
/// `s` itself, and only `[A-Za-z0-9-]` occur.
pub fn check_canonical_locale_string(s: &str) -> Result<MLocale, String> {
    if let Some(b) = s.bytes().find(|b| !(is_alnum(*b) || *b == b'-')) {
        return Err(format!("byte {:#04x} outside [A-Za-z0-9-]", b));
    }
    let tokens = split_tokens(s.as_bytes());
    match run_locale(&tokens, Mode::StrictBareTkey) {
        None => Err("not well-formed (strict recogniser rejects)".into()),
        Some(a) => {
            if a.dup_key {
                return Err("duplicate keyword/tfield key in output".into());
            }
            let c = a.value.canon();
            if c != s {
                return Err(format!("not canonical: canonical form of the output is {:?}", c));
            }
            Ok(a.value)
        }
    }
}

pub fn check_canonical_langid_string(s: &str) -> Result<MLangId, String> {
    if let Some(b) = s.bytes().find(|b| !(is_alnum(*b) || *b == b'-')) {
        return Err(format!("byte {:#04x} outside [A-Za-z0-9-]", b));
    }
    match langid_oracle(s.as_bytes()) {
        LangIdVerdict::Accept(m) => {
            let c = m.canon();
            if c != s {
                return Err(format!("not canonical: canonical form of the output is {:?}", c));
            }
            Ok(m)
        }
        _ => Err("not a well-formed language identifier".into()),
    }
}

// ------------------------------------------------------------------------------------------
// model counterparts of the public mutators (C10).  Each validates its textual arguments with
// the predicates above (invalid => Err and no change) and normalises like the recogniser.
// ------------------------------------------------------------------------------------------

impl MLangId {
    pub fn set_variants(&mut self, vs: &[&str]) {
        // arguments are already valid Variant values (typed API): lower-case strings
        self.variants = vs.iter().map(|s| s.to_string()).collect();
    }
    pub fn clear_variants(&mut self) {
        self.variants.clear();
    }
    pub fn has_variant(&self, v: &str) -> bool {
        self.variants.contains(v)
    }
}

fn norm_values(vals: &[&[u8]]) -> Result<Vec<String>, ()> {
    let mut out = vec![];
    for v in vals {
        if !is_attr(v) {
            return Err(());
        }
        let l = lower(v);
        if l != "true" {
            out.push(l);
        }
    }
    Ok(out)
}

impl MLocale {
    // ---- unicode
    pub fn set_attribute(&mut self, a: &[u8]) -> Result<(), ()> {
        if !is_attr(a) {
            return Err(());
        }
        self.attrs.insert(lower(a));
        Ok(())
    }
    pub fn remove_attribute(&mut self, a: &[u8]) -> Result<bool, ()> {
        if !is_attr(a) {
            return Err(());
        }
        Ok(self.attrs.remove(&lower(a)))
    }
    pub fn has_attribute(&self, a: &[u8]) -> Result<bool, ()> {
        if !is_attr(a) {
            return Err(());
        }
        Ok(self.attrs.contains(&lower(a)))
    }
    pub fn clear_attributes(&mut self) {
        self.attrs.clear();
    }
    pub fn set_keyword(&mut self, k: &[u8], vals: &[&[u8]]) -> Result<(), ()> {
        if !is_ukey(k) {
            return Err(());
        }
        let vals = norm_values(vals)?;
        self.keywords.insert(lower(k), vals);
        Ok(())
    }
    pub fn remove_keyword(&mut self, k: &[u8]) -> Result<bool, ()> {
        if !is_ukey(k) {
            return Err(());
        }
        Ok(self.keywords.remove(&lower(k)).is_some())
    }
    pub fn keyword(&self, k: &[u8]) -> Result<Vec<String>, ()> {
        if !is_ukey(k) {
            return Err(());
        }
        Ok(self.keywords.get(&lower(k)).cloned().unwrap_or_default())
    }
    pub fn clear_keywords(&mut self) {
        self.keywords.clear();
    }
    // ---- transform
    pub fn set_tlang(&mut self, tl: MLangId) {
        self.tlang = Some(tl);
    }
    pub fn clear_tlang(&mut self) {
        self.tlang = None;
    }
    pub fn set_tfield(&mut self, k: &[u8], vals: &[&[u8]]) -> Result<(), ()> {
        if !is_tkey(k) {
            return Err(());
        }
        let vals = norm_values(vals)?;
        self.tfields.insert(lower(k), vals);
        Ok(())
    }
    pub fn remove_tfield(&mut self, k: &[u8]) -> Result<bool, ()> {
        if !is_tkey(k) {
            return Err(());
        }
        Ok(self.tfields.remove(&lower(k)).is_some())
    }
    pub fn tfield(&self, k: &[u8]) -> Result<Vec<String>, ()> {
        if !is_tkey(k) {
            return Err(());
        }
        Ok(self.tfields.get(&lower(k)).cloned().unwrap_or_default())
    }
    pub fn clear_tfields(&mut self) {
        self.tfields.clear();
    }
    // ---- private
    pub fn add_tag(&mut self, t: &[u8]) -> Result<(), ()> {
        if !is_ptag(t) {
            return Err(());
        }
        self.tags.push(lower(t));
        self.tags.sort();
        Ok(())
    }
    pub fn remove_tag(&mut self, t: &[u8]) -> Result<bool, ()> {
        if !is_ptag(t) {
            return Err(());
        }
        let l = lower(t);
        if let Some(p) = self.tags.iter().position(|x| *x == l) {
            self.tags.remove(p);
            Ok(true)
        } else {
            Ok(false)
        }
    }
    pub fn has_tag(&self, t: &[u8]) -> Result<bool, ()> {
        if !is_ptag(t) {
            return Err(());
        }
        Ok(self.tags.contains(&lower(t)))
    }
    pub fn clear_tags(&mut self) {
        self.tags.clear();
    }
}

/// C11: the field-wise formula.
pub fn model_matches(a: &MLangId, b: &MLangId, ra: bool, rb: bool) -> bool {
    fn f<T: PartialEq>(x: &T, y: &T, xe: bool, ye: bool, ra: bool, rb: bool) -> bool {
        (ra && xe) || (rb && ye) || x == y
    }
    f(&a.lang, &b.lang, a.lang.is_none(), b.lang.is_none(), ra, rb)
        && f(&a.script, &b.script, a.script.is_none(), b.script.is_none(), ra, rb)
        && f(&a.region, &b.region, a.region.is_none(), b.region.is_none(), ra, rb)
        && f(
            &a.variants,
            &b.variants,
            a.variants.is_empty(),
            b.variants.is_empty(),
            ra,
            rb,
        )
}

#[cfg(test)]
mod tests {
    use super::*;
    #[test]
    fn zones() {
        let z = |s: &str| locale_zone(s.as_bytes()).0;
        assert_eq!(z("en-t-h0-hybrid-u-ca-buddhist").name(), "must_accept");
        assert_eq!(z("en-u").name(), "either");
        assert_eq!(z("en-x1-foo").name(), "must_reject");
        assert_eq!(z("en-a-foo").name(), "either_unchecked");
        assert_eq!(z("en-u-ca-u-nu").name(), "must_reject");
        assert_eq!(z("en-t-en-US-de").name(), "must_reject");
        assert_eq!(z("en-t-h0").name(), "either");
        assert_eq!(z("en-u-ca-foo-ca-bar").name(), "out_of_scope");
        assert_eq!(z("en--u-ca").name(), "either");
        assert_eq!(z("en-u--ca").name(), "must_reject");
        assert_eq!(z("en-x-a-").name(), "either");
        assert_eq!(z("en-UND").name(), "must_reject");
        assert_eq!(z("en-Latn-Latn").name(), "must_reject");
        match z("EN_latn_us-VALENCIA-1996-U-Zzz-abc-CA-true-NU-thai-latn-t-DE-h0-TRUE-x-B-a") {
            Zone::MustAccept(v) => assert_eq!(
                v.canon(),
                "en-Latn-US-1996-valencia-t-de-h0-u-abc-zzz-ca-nu-thai-latn-x-a-b"
            ),
            o => panic!("{:?}", o),
        }
    }
}

//! Likely-subtags reference (DESIGN §3.3) and direction reference (§3.4).
//!
//! Built from the *JSON text* of the CLDR files (the caller parses the JSON and hands over
//! plain string pairs); dictionary semantics only, no tables, no binary search.

use std::collections::{BTreeMap, BTreeSet, HashMap};

/// index 0 of every universe list is "absent"
pub type Id = u16;
pub type Triple = (Id, Id, Id);

pub struct Likely {
    pub langs: Vec<String>,
    pub scripts: Vec<String>,
    pub regions: Vec<String>,
    /// number of *known* (CLDR) entries in each universe, including index 0; ids >= these are
    /// the unknown representatives
    pub known: (usize, usize, usize),
    pub dict: HashMap<Triple, Triple>,
    /// the raw entries, key string -> value string
    pub entries: BTreeMap<String, String>,
}

fn split_key(k: &str) -> (Option<&str>, Option<&str>, Option<&str>) {
    // keys look like  "aa", "aa-Latn", "aa-ET", "und-Latn-ET", "und-419", ...
    let mut l = None;
    let mut s = None;
    let mut r = None;
    for (i, p) in k.split(|c| c == '-' || c == '_').enumerate() {
        if i == 0 {
            if p != "und" {
                l = Some(p);
            }
        } else if p.len() == 4 && p.bytes().all(|b| b.is_ascii_alphabetic()) {
            s = Some(p);
        } else {
            r = Some(p);
        }
    }
    (l, s, r)
}

impl Likely {
    pub fn new(
        entries: BTreeMap<String, String>,
        unknown_langs: &[&str],
        unknown_scripts: &[&str],
        unknown_regions: &[&str],
    ) -> Likely {
        let mut ls: BTreeSet<String> = BTreeSet::new();
        let mut ss: BTreeSet<String> = BTreeSet::new();
        let mut rs: BTreeSet<String> = BTreeSet::new();
        for (k, v) in &entries {
            for x in [k, v] {
                let (l, s, r) = split_key(x);
                if let Some(l) = l {
                    ls.insert(l.to_string());
                }
                if let Some(s) = s {
                    ss.insert(s.to_string());
                }
                if let Some(r) = r {
                    rs.insert(r.to_string());
                }
            }
        }
        let mk = |set: BTreeSet<String>, unk: &[&str]| -> (Vec<String>, usize) {
            let mut v = vec![String::new()];
            v.extend(set);
            let known = v.len();
            for u in unk {
                // a candidate that CLDR happens to know is simply not an *unknown* representative
                if !v.iter().any(|x| x == u) {
                    v.push(u.to_string());
                }
            }
            (v, known)
        };
        let (langs, kl) = mk(ls, unknown_langs);
        let (scripts, ks) = mk(ss, unknown_scripts);
        let (regions, kr) = mk(rs, unknown_regions);
        let li: HashMap<&str, Id> = langs.iter().enumerate().map(|(i, s)| (s.as_str(), i as Id)).collect();
        let si: HashMap<&str, Id> = scripts.iter().enumerate().map(|(i, s)| (s.as_str(), i as Id)).collect();
        let ri: HashMap<&str, Id> = regions.iter().enumerate().map(|(i, s)| (s.as_str(), i as Id)).collect();
        let to_ids = |x: &str| -> Triple {
            let (l, s, r) = split_key(x);
            (
                l.map_or(0, |l| li[l]),
                s.map_or(0, |s| si[s]),
                r.map_or(0, |r| ri[r]),
            )
        };
        let mut dict = HashMap::new();
        for (k, v) in &entries {
            let prev = dict.insert(to_ids(k), to_ids(v));
            assert!(prev.is_none(), "duplicate key {}", k);
        }
        Likely {
            langs,
            scripts,
            regions,
            known: (kl, ks, kr),
            dict,
            entries,
        }
    }

    pub fn ids_of(&self, x: &str) -> Option<Triple> {
        let (l, s, r) = split_key(x);
        let f = |v: &Vec<String>, x: Option<&str>| -> Option<Id> {
            match x {
                None => Some(0),
                Some(x) => v.iter().position(|y| y == x).map(|p| p as Id),
            }
        };
        Some((f(&self.langs, l)?, f(&self.scripts, s)?, f(&self.regions, r)?))
    }

    pub fn show(&self, t: Triple) -> String {
        let mut s = String::new();
        s.push_str(if t.0 == 0 { "und" } else { &self.langs[t.0 as usize] });
        if t.1 != 0 {
            s.push('-');
            s.push_str(&self.scripts[t.1 as usize]);
        }
        if t.2 != 0 {
            s.push('-');
            s.push_str(&self.regions[t.2 as usize]);
        }
        s
    }

    #[inline]
    fn over(v: Triple, given: Triple) -> Triple {
        (
            if given.0 != 0 { given.0 } else { v.0 },
            if given.1 != 0 { given.1 } else { v.1 },
            if given.2 != 0 { given.2 } else { v.2 },
        )
    }

    /// The sentence of C06, literally. `None` = unchanged.
    pub fn ref_maximize(&self, x: Triple) -> Option<Triple> {
        let (l, s, r) = x;
        if l != 0 && s != 0 && r != 0 {
            return None;
        }
        let d = |k: Triple| self.dict.get(&k).copied();
        let v = if l != 0 {
            let mut v = None;
            if r != 0 {
                v = d((l, 0, r));
            }
            if v.is_none() && s != 0 {
                v = d((l, s, 0));
            }
            if v.is_none() {
                v = d((l, 0, 0));
            }
            v
        } else if s != 0 {
            let mut v = None;
            if r != 0 {
                v = d((0, s, r));
            }
            if v.is_none() {
                v = d((0, s, 0));
            }
            v
        } else if r != 0 {
            d((0, 0, r))
        } else {
            None
        };
        v.map(|v| Self::over(v, x))
    }

    /// The UTS #35 fallbacks that C06 names; returned only when `ref_maximize` finds nothing.
    /// (bare `und`; `und_script` for an unknown language; `und_region` after an unknown script)
    pub fn uts35_fallback(&self, x: Triple) -> Option<Triple> {
        if self.ref_maximize(x).is_some() {
            return None;
        }
        let (l, s, r) = x;
        if l != 0 && s != 0 && r != 0 {
            return None;
        }
        let d = |k: Triple| self.dict.get(&k).copied();
        let v = if l == 0 && s == 0 && r == 0 {
            d((0, 0, 0))
        } else if l != 0 && s != 0 {
            // unknown language with a script: und_script
            d((0, s, 0))
        } else if l == 0 && s != 0 && r != 0 {
            // unknown script: und_region
            d((0, 0, r))
        } else {
            None
        };
        v.map(|v| Self::over(v, x))
    }

    /// The answers C06 accepts for one maximize call: the dictionary answer and, where the
    /// dictionary finds nothing, also the UTS #35 fallback (either is accepted).
    pub fn maximize_options(&self, x: Triple) -> Vec<Option<Triple>> {
        let mut v = vec![self.ref_maximize(x)];
        if let Some(f) = self.uts35_fallback(x) {
            v.push(Some(f));
        }
        v
    }

    /// Every outcome of the three-trial rule of C08 when each of its maximize calls may give any
    /// of the answers C06 accepts (`maximize_options`).  On triples where no fallback is in reach
    /// this is the single answer of `ref_minimize`.
    pub fn ref_minimize_options(&self, x: Triple) -> Vec<Option<Triple>> {
        let mut out: Vec<Option<Triple>> = vec![];
        let mut add = |o: Option<Triple>, out: &mut Vec<Option<Triple>>| {
            if !out.contains(&o) {
                out.push(o);
            }
        };
        let maxes: Vec<Option<Triple>> = if x.0 != 0 && x.1 != 0 && x.2 != 0 { vec![Some(x)] } else { self.maximize_options(x) };
        for max in maxes {
            let max = match max {
                None => {
                    add(None, &mut out);
                    continue;
                }
                Some(m) => m,
            };
            let mut trials = vec![(max.0, 0, 0)];
            if max.2 != 0 {
                trials.push((max.0, 0, max.2));
            }
            if max.1 != 0 {
                trials.push((max.0, max.1, 0));
            }
            // depth-first over the answer of every trial: a trial "hits" when its answer is max
            fn rec(lk: &Likely, trials: &[Triple], i: usize, max: Triple, out: &mut Vec<Option<Triple>>) {
                if i == trials.len() {
                    if !out.contains(&None) {
                        out.push(None);
                    }
                    return;
                }
                for ans in lk.maximize_options(trials[i]) {
                    if ans == Some(max) {
                        if !out.contains(&Some(trials[i])) {
                            out.push(Some(trials[i]));
                        }
                    } else {
                        rec(lk, trials, i + 1, max, out);
                    }
                }
            }
            rec(self, &trials, 0, max, &mut out);
        }
        out
    }

    pub fn ref_minimize(&self, x: Triple) -> Option<Triple> {
        let max = if x.0 != 0 && x.1 != 0 && x.2 != 0 {
            x
        } else {
            self.ref_maximize(x)?
        };
        let full = |t: Triple| -> Triple { self.ref_maximize(t).unwrap_or(t) };
        let t1 = (max.0, 0, 0);
        if self.ref_maximize(t1).is_some() && full(t1) == max {
            return Some(t1);
        }
        if max.2 != 0 {
            let t2 = (max.0, 0, max.2);
            if self.ref_maximize(t2).is_some() && full(t2) == max {
                return Some(t2);
            }
        }
        if max.1 != 0 {
            let t3 = (max.0, max.1, 0);
            if self.ref_maximize(t3).is_some() && full(t3) == max {
                return Some(t3);
            }
        }
        None
    }
}

// ------------------------------------------------------------------------------------------
// direction
// ------------------------------------------------------------------------------------------

#[derive(Clone, Copy, Debug, PartialEq, Eq, Hash, PartialOrd, Ord)]
pub enum Dir {
    LTR,
    RTL,
    TTB,
}

pub struct DirRef {
    /// (locale name as in the directory, language, script, region, direction)
    pub locales: Vec<(String, String, Option<String>, Option<String>, Dir)>,
    pub script_dir: BTreeMap<String, Dir>,
    pub rtl_langs: BTreeSet<String>,
    /// languages that CLDR lists with more than one direction
    pub multi_dir_langs: BTreeSet<String>,
}

impl DirRef {
    pub fn new(locales: Vec<(String, String, Option<String>, Option<String>, Dir)>) -> DirRef {
        let mut script_dir: BTreeMap<String, Dir> = BTreeMap::new();
        let mut rtl_langs = BTreeSet::new();
        let mut by_lang: BTreeMap<String, BTreeSet<Dir>> = BTreeMap::new();
        for (name, l, s, _r, d) in &locales {
            if let Some(s) = s {
                if let Some(prev) = script_dir.insert(s.clone(), *d) {
                    assert!(prev == *d, "script {} has two directions in CLDR ({})", s, name);
                }
            }
            if *d == Dir::RTL {
                rtl_langs.insert(l.clone());
            }
            by_lang.entry(l.clone()).or_default().insert(*d);
        }
        let multi_dir_langs = by_lang
            .into_iter()
            .filter(|(_, ds)| ds.len() > 1)
            .map(|(l, _)| l)
            .collect();
        DirRef {
            locales,
            script_dir,
            rtl_langs,
            multi_dir_langs,
        }
    }
}

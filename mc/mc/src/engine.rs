//! Exploration machinery shared by all properties (DESIGN §2): spaces that map an index to
//! an input, the block scheduler, the watchdog, panic capture, violation collection.

use std::collections::BTreeMap;
use std::panic::{catch_unwind, AssertUnwindSafe};
use std::sync::atomic::{AtomicBool, AtomicU64, Ordering};
use std::sync::Mutex;
use std::time::{Duration, Instant};

use serde_json::{json, Value};

// ------------------------------------------------------------------------------------------
// context
// ------------------------------------------------------------------------------------------

#[derive(Clone, Copy, PartialEq, Eq, Debug)]
pub enum Tier {
    Quick,
    Thorough,
}

#[derive(Clone, Debug)]
pub struct Ctx {
    pub prop: String,
    pub tier: Tier,
    pub seed: u64,
    pub threads: usize,
    pub repo: String,
}

impl Ctx {
    pub fn quick(&self) -> bool {
        self.tier == Tier::Quick
    }
    pub fn tier_name(&self) -> &'static str {
        match self.tier {
            Tier::Quick => "quick",
            Tier::Thorough => "thorough",
        }
    }
}

// ------------------------------------------------------------------------------------------
// panic capture
// ------------------------------------------------------------------------------------------

thread_local! {
    static LAST_PANIC: std::cell::RefCell<String> = std::cell::RefCell::new(String::new());
}

/// the most recent panic of any thread (for reporting an engine failure of the checker itself)
pub static LAST_PANIC_ANYWHERE: Mutex<String> = Mutex::new(String::new());

pub fn install_panic_hook() {
    std::panic::set_hook(Box::new(|info| {
        let loc = info
            .location()
            .map(|l| format!("{}:{}", l.file(), l.line()))
            .unwrap_or_else(|| "?".into());
        let msg = if let Some(s) = info.payload().downcast_ref::<&str>() {
            s.to_string()
        } else if let Some(s) = info.payload().downcast_ref::<String>() {
            s.clone()
        } else {
            "?".into()
        };
        LAST_PANIC.with(|p| *p.borrow_mut() = format!("{} at {}", msg, loc));
        if let Ok(mut g) = LAST_PANIC_ANYWHERE.try_lock() {
            let line = format!("{} at {}", msg, loc);
            if g.len() > 4000 {
                let mut cut = g.len() - 2000;
                while !g.is_char_boundary(cut) {
                    cut += 1;
                }
                *g = g[cut..].to_string();
            }
            g.push_str(" || ");
            g.push_str(&line);
        }
    }));
}

#[derive(Clone, Debug, PartialEq)]
pub enum Out<T> {
    Ok(T),
    Err(String),
    Panic(String),
}

impl<T> Out<T> {
    pub fn kind(&self) -> usize {
        match self {
            Out::Ok(_) => 0,
            Out::Err(_) => 1,
            Out::Panic(_) => 2,
        }
    }
    pub fn is_ok(&self) -> bool {
        matches!(self, Out::Ok(_))
    }
    pub fn is_err(&self) -> bool {
        matches!(self, Out::Err(_))
    }
    pub fn is_panic(&self) -> bool {
        matches!(self, Out::Panic(_))
    }
    pub fn ok(&self) -> Option<&T> {
        match self {
            Out::Ok(v) => Some(v),
            _ => None,
        }
    }
    pub fn brief(&self, show: impl Fn(&T) -> String) -> String {
        match self {
            Out::Ok(v) => format!("Ok({})", show(v)),
            Out::Err(e) => format!("Err({})", e),
            Out::Panic(p) => format!("PANIC({})", p),
        }
    }
}
pub const OUTCOME_NAMES: [&str; 3] = ["ok", "err", "panic"];

/// Runs a fallible subject call under `catch_unwind`.
#[inline]
pub fn guard<T, E: std::fmt::Debug>(f: impl FnOnce() -> Result<T, E>) -> Out<T> {
    // every guarded library call is progress of the case it belongs to: the hang criterion applies
    // to ONE call (a check that makes a thousand calls on a 700 kB input is not a hanging call)
    heartbeat();
    match catch_unwind(AssertUnwindSafe(f)) {
        Ok(Ok(v)) => Out::Ok(v),
        Ok(Err(e)) => Out::Err(format!("{:?}", e)),
        Err(_) => Out::Panic(LAST_PANIC.with(|p| p.borrow().clone())),
    }
}

/// Runs an infallible subject call under `catch_unwind`.
#[inline]
pub fn guard_total<T>(f: impl FnOnce() -> T) -> Result<T, String> {
    heartbeat();
    match catch_unwind(AssertUnwindSafe(f)) {
        Ok(v) => Ok(v),
        Err(_) => Err(LAST_PANIC.with(|p| p.borrow().clone())),
    }
}

// ------------------------------------------------------------------------------------------
// violations
// ------------------------------------------------------------------------------------------

#[derive(Clone, Debug)]
pub enum Case {
    /// a byte string handed to a parser
    Input(Vec<u8>),
    /// a history of API calls
    Ops {
        harness: String,
        init: String,
        ops: Vec<String>,
    },
    /// anything else that can be re-created from text (triples, pairs, table rows, ...)
    Text(String),
}

impl Case {
    pub fn key(&self) -> String {
        match self {
            Case::Input(b) => format!("input:{}", hex(b)),
            Case::Ops { harness, init, ops } => format!("ops:{}:{}:{}", harness, init, ops.join(";")),
            Case::Text(t) => format!("text:{}", t),
        }
    }
    pub fn to_json(&self) -> Value {
        match self {
            Case::Input(b) => json!({"input_hex": hex(b), "input_lossy": String::from_utf8_lossy(b)}),
            Case::Ops { harness, init, ops } => json!({"harness": harness, "init": init, "ops": ops}),
            Case::Text(t) => json!({"text": t}),
        }
    }
    pub fn from_json(v: &Value) -> Option<Case> {
        if let Some(h) = v.get("input_hex").and_then(|x| x.as_str()) {
            return Some(Case::Input(unhex(h)?));
        }
        if let Some(t) = v.get("text").and_then(|x| x.as_str()) {
            return Some(Case::Text(t.to_string()));
        }
        if let Some(ops) = v.get("ops").and_then(|x| x.as_array()) {
            return Some(Case::Ops {
                harness: v.get("harness")?.as_str()?.to_string(),
                init: v.get("init")?.as_str()?.to_string(),
                ops: ops.iter().filter_map(|o| o.as_str().map(|s| s.to_string())).collect(),
            });
        }
        None
    }
}

pub fn hex(b: &[u8]) -> String {
    let mut s = String::with_capacity(b.len() * 2);
    for x in b {
        s.push_str(&format!("{:02x}", x));
    }
    s
}
pub fn unhex(h: &str) -> Option<Vec<u8>> {
    if h.len() % 2 != 0 {
        return None;
    }
    (0..h.len() / 2)
        .map(|i| u8::from_str_radix(&h[2 * i..2 * i + 2], 16).ok())
        .collect()
}
pub fn lossy(b: &[u8]) -> String {
    let mut s = String::new();
    for &c in b {
        if (0x20..0x7f).contains(&c) && c != b'\\' {
            s.push(c as char);
        } else {
            s.push_str(&format!("\\x{:02x}", c));
        }
    }
    s
}

#[derive(Clone, Debug)]
pub struct Violation {
    /// sub-check that failed (stable name, used in replay files)
    pub sub: &'static str,
    /// coarse class used to group equal-looking violations in the report
    pub class: String,
    pub case: Case,
    pub expected: String,
    pub observed: String,
}

#[derive(Default)]
pub struct Collector {
    /// (sub, class) -> (count, smallest order key, example)
    map: Mutex<BTreeMap<(String, String), (u64, u64, Violation)>>,
    pub total: AtomicU64,
}

impl Collector {
    pub fn new() -> Self {
        Default::default()
    }
    /// `order` makes the retained example independent of thread scheduling: the example with
    /// the smallest order key is kept.
    pub fn push(&self, order: u64, v: Violation) {
        let n = self.total.fetch_add(1, Ordering::Relaxed);
        if n + 1 >= VIOLATION_CAP {
            // a run that has already found this many violating cases is decided; finishing the
            // enumeration would only take time (formatting millions of reports)
            ABORT.store(true, Ordering::Relaxed);
        }
        // simplest first: the retained example of a class is the shortest input / history
        // (ties broken by the enumeration order, which is independent of thread scheduling)
        let size = match &v.case {
            Case::Input(b) => b.len() as u64,
            Case::Ops { ops, .. } => ops.len() as u64,
            Case::Text(t) => t.len() as u64,
        };
        let order = (size.min(0xffff) << 48) | (order & 0xffff_ffff_ffff);
        let mut m = self.map.lock().unwrap();
        let k = (v.sub.to_string(), v.class.clone());
        match m.get_mut(&k) {
            Some(e) => {
                e.0 += 1;
                if order < e.1 {
                    e.1 = order;
                    e.2 = v;
                }
            }
            None => {
                // bound the number of classes kept (never the count)
                if m.len() < 5000 {
                    m.insert(k, (1, order, v));
                }
            }
        }
    }
    pub fn total(&self) -> u64 {
        self.total.load(Ordering::Relaxed)
    }
    /// keeps only the violation classes whose sub-check satisfies `keep`
    pub fn retain(&self, keep: impl Fn(&str) -> bool) {
        let mut m = self.map.lock().unwrap();
        m.retain(|k, _| keep(&k.0));
        let t: u64 = m.values().map(|e| e.0).sum();
        self.total.store(t, Ordering::Relaxed);
    }
    pub fn classes(&self) -> Vec<(u64, u64, Violation)> {
        let m = self.map.lock().unwrap();
        let mut v: Vec<_> = m.values().cloned().collect();
        // enumerated-schedule findings first (they are the reproducible form of everything a
        // parallel sweep may see on a library with shared mutable state), then simplest first
        v.sort_by_key(|e| (!e.2.sub.ends_with(".schedule"), e.1));
        v
    }
}

// ------------------------------------------------------------------------------------------
// per-thread accumulators
// ------------------------------------------------------------------------------------------

pub const NCOUNTERS: usize = 24;

#[derive(Clone)]
pub struct Local {
    pub n: u64,
    pub nontrivial: u64,
    pub zones: [u64; 5],
    pub outcomes: [u64; 3],
    pub cov: u64,
    pub counters: [u64; NCOUNTERS],
    /// deterministic samples: slot -> (order, input, note)
    pub samples: BTreeMap<u32, (u64, Vec<u8>, String)>,
    /// order key of the case being executed (set by the runner)
    pub order: u64,
    /// fnv-style digest of distinct canonical outputs (optional use)
    pub out_hash: u64,
}

impl Local {
    pub fn new() -> Self {
        Local {
            n: 0,
            nontrivial: 0,
            zones: [0; 5],
            outcomes: [0; 3],
            cov: 0,
            counters: [0; NCOUNTERS],
            samples: BTreeMap::new(),
            order: 0,
            out_hash: 0,
        }
    }
    pub fn sample(&mut self, slot: u32, input: &[u8], note: impl FnOnce() -> String) {
        let order = self.order;
        match self.samples.get(&slot) {
            Some(e) if e.0 <= order => {}
            _ => {
                self.samples.insert(slot, (order, input.to_vec(), note()));
            }
        }
    }
    /// cheap pre-test so that callers build the sample text only when it would be kept
    #[inline]
    pub fn wants(&self, slot: u32) -> bool {
        match self.samples.get(&slot) {
            Some(e) => e.0 > self.order,
            None => true,
        }
    }
    pub fn merge(&mut self, o: &Local) {
        self.n += o.n;
        self.nontrivial += o.nontrivial;
        for i in 0..5 {
            self.zones[i] += o.zones[i];
        }
        for i in 0..3 {
            self.outcomes[i] += o.outcomes[i];
        }
        self.cov |= o.cov;
        for i in 0..NCOUNTERS {
            self.counters[i] += o.counters[i];
        }
        for (k, v) in &o.samples {
            match self.samples.get(k) {
                Some(e) if e.0 <= v.0 => {}
                _ => {
                    self.samples.insert(*k, v.clone());
                }
            }
        }
    }
    pub fn samples_json(&self, max: usize) -> Vec<Value> {
        self.samples
            .values()
            .take(max)
            .map(|(_, b, note)| json!({"input": lossy(b), "note": note}))
            .collect()
    }
}

// ------------------------------------------------------------------------------------------
// spaces
// ------------------------------------------------------------------------------------------

/// A finite space of inputs: `outer_len()` indices, each of which expands to one or more
/// inputs. Everything is a pure function of the index (determinism, DESIGN §2.6).
pub trait Space: Sync {
    fn name(&self) -> String;
    fn outer_len(&self) -> u64;
    /// number of inputs the space contains (sum over outer indices), if known in advance
    fn visit(&self, outer: u64, buf: &mut Vec<u8>, f: &mut dyn FnMut(&[u8]));
    fn describe(&self) -> Value;
}

pub struct RunStats {
    pub local: Local,
    pub wall: f64,
    pub inputs: u64,
}

static ABORT: AtomicBool = AtomicBool::new(false);

// A check whose single "case" is a whole history of calls (H-count) tells the watchdog after
// every call that it is making progress: the hang criterion applies to ONE library call, not to
// the checker's own loop around many of them.
const MAX_WORKERS: usize = 256;
const HB_STRIDE: usize = 16; // one counter per 128 bytes: workers do not share a cache line
static HEARTBEATS: [AtomicU64; MAX_WORKERS * HB_STRIDE] = [const { AtomicU64::new(0) }; MAX_WORKERS * HB_STRIDE];
thread_local! {
    static WORKER_ID: std::cell::Cell<usize> = const { std::cell::Cell::new(usize::MAX) };
}
/// called by a check between two library calls of one case
pub fn heartbeat() {
    let w = WORKER_ID.with(|c| c.get());
    if w < MAX_WORKERS {
        HEARTBEATS[w * HB_STRIDE].fetch_add(1, Ordering::Relaxed);
    }
}
/// after this many violating cases the sweeps stop early (the evidence then says `exhaustive: false`)
pub const VIOLATION_CAP: u64 = 200_000;
pub fn stopped_early() -> bool {
    ABORT.load(Ordering::Relaxed)
}

/// Wall-clock cap for a whole check (DESIGN §11); hitting it is an engine failure (exit 3).
pub static DEADLINE: Mutex<Option<Instant>> = Mutex::new(None);

pub fn set_deadline(d: Duration) {
    *DEADLINE.lock().unwrap() = Some(Instant::now() + d);
}
pub fn past_deadline() -> bool {
    DEADLINE.lock().unwrap().map_or(false, |d| Instant::now() > d)
}

/// Runs `check` on every input of `space`, on `threads` workers that claim blocks of outer
/// indices from an atomic counter. A watchdog declares a hang when one outer index stays
/// current for more than `hang_secs`.
pub fn run_space(
    ctx: &Ctx,
    space: &dyn Space,
    block: u64,
    check: &(dyn Fn(&[u8], &mut Local) + Sync),
) -> RunStats {
    let t0 = Instant::now();
    let n = space.outer_len();
    let next = AtomicU64::new(0);
    let nthreads = ctx.threads.max(1);
    // per worker: current outer index + 1 (0 = idle), and a tick of the inner input counter
    let current: Vec<AtomicU64> = (0..nthreads).map(|_| AtomicU64::new(0)).collect();
    let ticks: Vec<AtomicU64> = (0..nthreads).map(|_| AtomicU64::new(0)).collect();
    // per worker: the kernel thread id (0 = not yet known), for the CPU-time watchdog
    let tids: Vec<AtomicU64> = (0..nthreads).map(|_| AtomicU64::new(0)).collect();
    let done = AtomicBool::new(false);
    let mut total = Local::new();
    let locals: Mutex<Vec<Local>> = Mutex::new(vec![]);
    std::thread::scope(|s| {
        // watchdog.  A hang is decided on the CPU time the worker THREAD has spent on one case
        // (utime + stime of /proc/self/task/<tid>/stat), not on wall-clock time: on a loaded
        // machine a case can stay current for many seconds without having run for more than a
        // few milliseconds.  A case that stays current for HANG_BLOCKED_SECS of wall-clock time
        // while its thread uses (almost) no CPU is blocked (a lock, a sleep) -- also a hang.
        s.spawn(|| {
            // (outer+1, inner, since, cpu ticks at that moment)
            let mut last: Vec<(u64, u64, Instant, Option<u64>)> =
                (0..nthreads).map(|_| (0, 0, Instant::now(), None)).collect();
            while !done.load(Ordering::Relaxed) {
                std::thread::sleep(Duration::from_millis(200));
                if past_deadline() {
                    eprintln!("ENGINE-FAILURE wall-clock cap hit in space {}", space.name());
                    std::process::exit(3);
                }
                for w in 0..nthreads {
                    let c = current[w].load(Ordering::Relaxed);
                    // the inner input counter and the check's own heartbeat (both mean progress)
                    let t = ticks[w].load(Ordering::Relaxed).wrapping_add(HEARTBEATS[(w % MAX_WORKERS) * HB_STRIDE].load(Ordering::Relaxed) << 24);
                    let tid = tids[w].load(Ordering::Relaxed);
                    if c == 0 || c != last[w].0 || t != last[w].1 {
                        last[w] = (c, t, Instant::now(), thread_cpu_ticks(tid));
                        continue;
                    }
                    let wall = last[w].2.elapsed();
                    if wall < Duration::from_secs(HANG_SECS) {
                        continue;
                    }
                    let verdict = match (last[w].3, thread_cpu_ticks(tid)) {
                        (Some(a), Some(b)) => {
                            let cpu = b.saturating_sub(a);
                            if cpu >= HANG_SECS * CLK_TCK {
                                Some(format!("the case has used {:.1} s of CPU time of its thread ({:.1} s of wall-clock time) without returning", cpu as f64 / CLK_TCK as f64, wall.as_secs_f64()))
                            } else if wall >= Duration::from_secs(HANG_BLOCKED_SECS) && cpu < CLK_TCK {
                                Some(format!("the case has been current for {:.0} s of wall-clock time while its thread used {:.2} s of CPU time: the call is blocked", wall.as_secs_f64(), cpu as f64 / CLK_TCK as f64))
                            } else {
                                None
                            }
                        }
                        // no per-thread CPU clock available: fall back to a long wall-clock limit
                        _ => {
                            if wall >= Duration::from_secs(HANG_BLOCKED_SECS) {
                                Some(format!("the case has been current for {:.0} s of wall-clock time (no per-thread CPU clock available)", wall.as_secs_f64()))
                            } else {
                                None
                            }
                        }
                    };
                    if let Some(why) = verdict {
                        // reconstruct the input: the t-th input of outer index c-1
                        let mut buf = vec![];
                        let mut k = 0u64;
                        let mut found: Option<Vec<u8>> = None;
                        let t_plain = ticks[w].load(Ordering::Relaxed);
                        space.visit(c - 1, &mut buf, &mut |b| {
                            if k == t_plain && found.is_none() {
                                found = Some(b.to_vec());
                            }
                            k += 1;
                        });
                        let inp = found.unwrap_or_default();
                        report_hang(ctx, &space.name(), c - 1, t & 0xff_ffff, &inp, &why);
                        std::process::exit(HANG_EXIT);
                    }
                }
            }
        });
        let mut handles = vec![];
        for w in 0..nthreads {
            let next = &next;
            let current = &current;
            let ticks = &ticks;
            let tids = &tids;
            let locals = &locals;
            handles.push(s.spawn(move || {
                let mut local = Local::new();
                let mut buf: Vec<u8> = Vec::with_capacity(256);
                tids[w].store(current_tid(), Ordering::Relaxed);
                WORKER_ID.with(|c| c.set(w));
                loop {
                    if ABORT.load(Ordering::Relaxed) {
                        break;
                    }
                    let start = next.fetch_add(block, Ordering::Relaxed);
                    if start >= n {
                        break;
                    }
                    let end = (start + block).min(n);
                    for outer in start..end {
                        current[w].store(outer + 1, Ordering::Relaxed);
                        let mut inner = 0u64;
                        space.visit(outer, &mut buf, &mut |b| {
                            ticks[w].store(inner, Ordering::Relaxed);
                            local.order = (outer << 20) | inner.min((1 << 20) - 1);
                            local.n += 1;
                            check(b, &mut local);
                            inner += 1;
                        });
                    }
                    current[w].store(0, Ordering::Relaxed);
                }
                locals.lock().unwrap().push(local);
            }));
        }
        for h in handles {
            h.join().expect("worker thread died");
        }
        done.store(true, Ordering::Relaxed);
    });
    for l in locals.lock().unwrap().iter() {
        total.merge(l);
    }
    RunStats {
        inputs: total.n,
        local: total,
        wall: t0.elapsed().as_secs_f64(),
    }
}

/// a case is a hang when its thread has spent this many seconds of CPU time on it
pub const HANG_SECS: u64 = 5;
/// ... or when it has been current this long (wall clock) while its thread used < 1 s of CPU
pub const HANG_BLOCKED_SECS: u64 = 120;
/// USER_HZ: the unit of utime/stime in /proc/<pid>/task/<tid>/stat (100 on every Linux ABI)
pub const CLK_TCK: u64 = 100;
/// exit status of a worker that stopped on a hang (the parent turns it into the verdict)
pub const HANG_EXIT: i32 = 4;

/// kernel thread id of the calling thread (0 when /proc is not available)
pub fn current_tid() -> u64 {
    std::fs::read_link("/proc/thread-self")
        .ok()
        .and_then(|p| p.file_name().and_then(|f| f.to_str()).and_then(|f| f.parse().ok()))
        .unwrap_or(0)
}

/// utime + stime of one thread of this process, in clock ticks
pub fn thread_cpu_ticks(tid: u64) -> Option<u64> {
    if tid == 0 {
        return None;
    }
    let s = std::fs::read_to_string(format!("/proc/self/task/{}/stat", tid)).ok()?;
    // the command name (field 2) may contain spaces and parentheses: fields are counted from the last ')'
    let rest = &s[s.rfind(')')? + 2..];
    let f: Vec<&str> = rest.split(' ').collect();
    // rest[0] is field 3 (state); utime is field 14, stime field 15
    Some(f.get(11)?.parse::<u64>().ok()? + f.get(12)?.parse::<u64>().ok()?)
}

pub fn trunc_lossy(b: &[u8], n: usize) -> String {
    if b.len() <= n {
        lossy(b)
    } else {
        format!("{}... ({} bytes)", lossy(&b[..n]), b.len())
    }
}

pub fn hang_path(prop: &str) -> String {
    format!("{}/replay/{}/hang.json", crate::verif_dir(), prop)
}

/// Records a hang as a replay file (the parent prints the VIOLATION line) and describes it on stderr.
pub fn report_hang(ctx: &Ctx, space: &str, outer: u64, inner: u64, input: &[u8], why: &str) {
    let dir = format!("{}/replay/{}", crate::verif_dir(), ctx.prop);
    let _ = std::fs::remove_dir_all(&dir);
    let _ = std::fs::create_dir_all(&dir);
    let sub = format!("{}.hang", ctx.prop.to_lowercase());
    let j = json!({
        "property": ctx.prop, "sub": sub, "class": format!("hang in space {}", space),
        "space": space, "outer": outer, "inner": inner,
        "case": Case::Input(input.to_vec()).to_json(),
        "expected": format!("the call returns (within {} s of CPU time)", HANG_SECS),
        "observed": why,
    });
    let _ = std::fs::write(hang_path(&ctx.prop), serde_json::to_string_pretty(&j).unwrap());
    eprintln!("HANG space={} outer={} inner={} ({}) input={}", space, outer, inner, why, trunc_lossy(input, 300));
}

/// Generic parallel loop over `0..n` for E4-style product domains: `f(index, &mut Local)`.
pub fn par_range(ctx: &Ctx, name: &str, n: u64, block: u64, f: &(dyn Fn(u64, &mut Local) + Sync)) -> RunStats {
    struct R<'a> {
        name: String,
        n: u64,
        f: &'a (dyn Fn(u64, &mut Local) + Sync),
    }
    // re-use run_space's scheduling + watchdog by expressing the range as a space whose single
    // "input" per index is the 8-byte index
    impl<'a> Space for R<'a> {
        fn name(&self) -> String {
            self.name.clone()
        }
        fn outer_len(&self) -> u64 {
            self.n
        }
        fn visit(&self, outer: u64, _buf: &mut Vec<u8>, f: &mut dyn FnMut(&[u8])) {
            f(&outer.to_le_bytes());
        }
        fn describe(&self) -> Value {
            json!({"range": self.n})
        }
    }
    let r = R {
        name: name.to_string(),
        n,
        f,
    };
    let ff = r.f;
    run_space(ctx, &r, block, &|b, l| {
        let mut a = [0u8; 8];
        a.copy_from_slice(&b[..8]);
        ff(u64::from_le_bytes(a), l);
    })
}

// ------------------------------------------------------------------------------------------
// report
// ------------------------------------------------------------------------------------------

pub struct Report {
    pub states: u64,
    pub transitions: u64,
    pub traces: u64,
    pub evaluations: u64,
    pub distinct_nontrivial: u64,
    pub rule: String,
    pub exhaustive: bool,
    pub samples: Vec<Value>,
    pub extra: serde_json::Map<String, Value>,
    pub assumptions: Vec<String>,
    pub collector: Collector,
    /// vacuity guards and similar: a failed guard is an engine failure, not a verdict
    pub engine_failures: Vec<String>,
}

impl Report {
    pub fn new() -> Self {
        Report {
            states: 0,
            transitions: 0,
            traces: 0,
            evaluations: 0,
            distinct_nontrivial: 0,
            rule: String::new(),
            exhaustive: true,
            samples: vec![],
            extra: serde_json::Map::new(),
            assumptions: vec![],
            collector: Collector::new(),
            engine_failures: vec![],
        }
    }
    pub fn add_space(&mut self, name: &str, desc: Value, st: &RunStats) {
        self.states += st.inputs;
        self.transitions += st.inputs;
        self.traces += st.inputs;
        self.evaluations += st.inputs;
        let e = self
            .extra
            .entry("engines".to_string())
            .or_insert_with(|| json!({}));
        e[name] = json!({
            "space": desc,
            "inputs": st.inputs,
            "wall_s": (st.wall * 100.0).round() / 100.0,
        });
        if st.local.zones.iter().any(|z| *z != 0) {
            e[name]["zones"] = zones_json(&st.local.zones);
        }
        if st.local.outcomes.iter().any(|z| *z != 0) {
            e[name]["outcomes"] = outcomes_json(&st.local.outcomes);
        }
    }
}

pub fn zones_json(z: &[u64; 5]) -> Value {
    let mut m = serde_json::Map::new();
    for (i, n) in refmodel::ZONE_NAMES.iter().enumerate() {
        m.insert(n.to_string(), json!(z[i]));
    }
    Value::Object(m)
}
pub fn outcomes_json(z: &[u64; 3]) -> Value {
    let mut m = serde_json::Map::new();
    for (i, n) in OUTCOME_NAMES.iter().enumerate() {
        m.insert(n.to_string(), json!(z[i]));
    }
    Value::Object(m)
}
pub fn cov_json(c: u64) -> Value {
    let hit: Vec<&str> = refmodel::cov::NAMES
        .iter()
        .enumerate()
        .filter(|(i, _)| c & (1 << i) != 0)
        .map(|(_, n)| *n)
        .collect();
    let missed: Vec<&str> = refmodel::cov::NAMES
        .iter()
        .enumerate()
        .filter(|(i, _)| c & (1 << i) == 0)
        .map(|(_, n)| *n)
        .collect();
    json!({"covered": format!("{}/{}", hit.len(), refmodel::cov::NAMES.len()), "missed": missed})
}

//! Observation of implementation values through the public getters only, in a form that can
//! be compared with the reference model field by field.

use refmodel::{MLangId, MLocale};
use unic_langid_impl::LanguageIdentifier;
use unic_locale_impl::Locale;

#[derive(Clone, Debug, PartialEq, Eq, Hash, Default)]
pub struct OLangId {
    pub lang: Option<String>,
    pub script: Option<String>,
    pub region: Option<String>,
    /// in the order the getter yields them
    pub variants: Vec<String>,
}

#[derive(Clone, Debug, PartialEq, Eq, Hash, Default)]
pub struct OLocale {
    pub id: OLangId,
    pub attrs: Vec<String>,
    pub keywords: Vec<(String, Vec<String>)>,
    pub tlang: Option<OLangId>,
    pub tfields: Vec<(String, Vec<String>)>,
    pub tags: Vec<String>,
}

pub fn obs_langid(li: &LanguageIdentifier) -> OLangId {
    let l = li.language.as_str();
    OLangId {
        lang: if l == "und" { None } else { Some(l.to_string()) },
        script: li.script.as_ref().map(|s| s.as_str().to_string()),
        region: li.region.as_ref().map(|s| s.as_str().to_string()),
        variants: li.variants().map(|v| v.as_str().to_string()).collect(),
    }
}

pub fn obs_locale(loc: &Locale) -> OLocale {
    let u = &loc.extensions.unicode;
    let t = &loc.extensions.transform;
    let p = &loc.extensions.private;
    OLocale {
        id: obs_langid(&loc.id),
        attrs: u.attributes().map(|s| s.to_string()).collect(),
        keywords: u
            .keyword_keys()
            .map(|k| {
                let vals = match u.keyword(k) {
                    Ok(it) => it.map(|s| s.to_string()).collect(),
                    Err(e) => vec![format!("<keyword({}) failed: {:?}>", k, e)],
                };
                (k.to_string(), vals)
            })
            .collect(),
        tlang: t.tlang().map(obs_langid),
        tfields: t
            .tfield_keys()
            .map(|k| {
                let vals = match t.tfield(k) {
                    Ok(it) => it.map(|s| s.to_string()).collect(),
                    Err(e) => vec![format!("<tfield({}) failed: {:?}>", k, e)],
                };
                (k.to_string(), vals)
            })
            .collect(),
        tags: p.tags().map(|s| s.to_string()).collect(),
    }
}

/// The iterator-returning getters promise `ExactSizeIterator`.  Callers use more of that
/// interface than `next()`: `len`, `size_hint`, `count`, `last`, `nth`, `fold`.  Every one of
/// them must describe the same sequence as walking the iterator with `next()`.  `mk` builds a
/// fresh iterator per question; `want` is the model's sequence.  Returns the first disagreement.
pub fn iter_laws<X, I: ExactSizeIterator<Item = X>>(mk: impl Fn() -> I, show: impl Fn(X) -> String, want: &[String]) -> Option<String> {
    let n = want.len();
    // next() until None, then None again (fused in effect)
    let mut it = mk();
    let mut walked = vec![];
    let mut remaining = vec![];
    loop {
        remaining.push((it.len(), it.size_hint()));
        match it.next() {
            Some(x) => walked.push(show(x)),
            None => break,
        }
        if walked.len() > n + 8 {
            return Some(format!("next() yields more than {} items", n + 8));
        }
    }
    if walked != want {
        return Some(format!("next() walk {:?} != {:?}", walked, want));
    }
    for (k, (l, h)) in remaining.iter().enumerate() {
        if *l != n - k || *h != (n - k, Some(n - k)) {
            return Some(format!("after {} next() calls: len() = {}, size_hint() = {:?}, remaining {}", k, l, h, n - k));
        }
    }
    if mk().count() != n {
        return Some(format!("count() = {} != {}", mk().count(), n));
    }
    let last = mk().last().map(&show);
    if last.as_ref() != want.last() {
        return Some(format!("last() = {:?} != {:?}", last, want.last()));
    }
    // every position of a short sequence; of a long one the ends, the middle and the positions
    // around every power of two (the laws stay linear in n)
    let ks: Vec<usize> = if n <= 64 {
        (0..=n).collect()
    } else {
        let mut v = vec![0, 1, 2, n / 2, n - 2, n - 1, n];
        let mut p = 4usize;
        while p <= n {
            v.extend([p - 1, p, p + 1]);
            p *= 2;
        }
        v.retain(|k| *k <= n);
        v.sort();
        v.dedup();
        v
    };
    for k in ks {
        let got = mk().nth(k).map(&show);
        if got.as_ref() != want.get(k) {
            return Some(format!("nth({}) = {:?} != {:?}", k, got, want.get(k)));
        }
        // nth(k) then the rest
        let mut it = mk();
        let _ = it.nth(k);
        let rest: Vec<String> = it.map(&show).collect();
        let want_rest: &[String] = if k + 1 <= n { &want[k + 1..] } else { &[] };
        if rest != want_rest {
            return Some(format!("after nth({}) the rest is {:?} != {:?}", k, rest, want_rest));
        }
    }
    // positions past the end: `None`, never a panic (the callers guard the whole check)
    for k in [n + 1, n + 2, n + 7, usize::MAX / 2, usize::MAX] {
        if mk().nth(k).is_some() {
            return Some(format!("nth({}) of a {}-element sequence is not None", k, n));
        }
        if mk().skip(k).next().is_some() || mk().skip(k).len() != 0 {
            return Some(format!("skip({}) of a {}-element sequence is not empty", k, n));
        }
    }
    for step in [n + 1, n + 3] {
        let got: Vec<String> = mk().step_by(step.max(1)).map(&show).collect();
        let want_st: Vec<String> = want.iter().step_by(step.max(1)).cloned().collect();
        if got != want_st {
            return Some(format!("step_by({}) {:?} != {:?}", step, got, want_st));
        }
    }
    // exhausted iterator: stays exhausted, len 0
    {
        let mut it = mk();
        for _ in 0..n {
            let _ = it.next();
        }
        if it.next().is_some() || it.next().is_some() || it.len() != 0 || it.nth(0).is_some() || it.nth(3).is_some() {
            return Some("an exhausted iterator yields again / reports a non-zero len".to_string());
        }
    }
    let folded = mk().fold(Vec::new(), |mut acc, x| {
        acc.push(show(x));
        acc
    });
    if folded != want {
        return Some(format!("fold {:?} != {:?}", folded, want));
    }
    // skip / take / step_by adaptors go through nth and size_hint
    for k in 0..=n.min(3) {
        let sk: Vec<String> = mk().skip(k).map(&show).collect();
        if sk != want[k.min(n)..] {
            return Some(format!("skip({}) {:?} != {:?}", k, sk, &want[k.min(n)..]));
        }
        if mk().skip(k).len() != n - k.min(n) {
            return Some(format!("skip({}).len() = {}", k, mk().skip(k).len()));
        }
    }
    if n > 0 {
        let st: Vec<String> = mk().step_by(2).map(&show).collect();
        let want_st: Vec<String> = want.iter().step_by(2).cloned().collect();
        if st != want_st {
            return Some(format!("step_by(2) {:?} != {:?}", st, want_st));
        }
    }
    None
}

pub fn exp_langid(m: &MLangId) -> OLangId {
    OLangId {
        lang: m.lang.clone(),
        script: m.script.clone(),
        region: m.region.clone(),
        variants: m.variants.iter().cloned().collect(),
    }
}

pub fn exp_locale(m: &MLocale) -> OLocale {
    OLocale {
        id: exp_langid(&m.id),
        attrs: m.attrs.iter().cloned().collect(),
        keywords: m.keywords.iter().map(|(k, v)| (k.clone(), v.clone())).collect(),
        tlang: m.tlang.as_ref().map(exp_langid),
        tfields: m.tfields.iter().map(|(k, v)| (k.clone(), v.clone())).collect(),
        tags: m.tags.clone(),
    }
}

/// name of the first field in which two observations differ
pub fn diff_langid(a: &OLangId, b: &OLangId) -> Option<&'static str> {
    if a.lang != b.lang {
        Some("language")
    } else if a.script != b.script {
        Some("script")
    } else if a.region != b.region {
        Some("region")
    } else if a.variants != b.variants {
        Some("variants")
    } else {
        None
    }
}

pub fn diff_locale(a: &OLocale, b: &OLocale) -> Option<&'static str> {
    if let Some(d) = diff_langid(&a.id, &b.id) {
        return Some(d);
    }
    if a.attrs != b.attrs {
        Some("attributes")
    } else if a.keywords != b.keywords {
        Some("keywords")
    } else if a.tlang != b.tlang {
        Some("tlang")
    } else if a.tfields != b.tfields {
        Some("tfields")
    } else if a.tags != b.tags {
        Some("private tags")
    } else {
        None
    }
}

pub fn show_olangid(o: &OLangId) -> String {
    format!(
        "{{lang:{:?} script:{:?} region:{:?} variants:{:?}}}",
        o.lang, o.script, o.region, o.variants
    )
}
pub fn show_olocale(o: &OLocale) -> String {
    format!(
        "{{id:{} attrs:{:?} keywords:{:?} tlang:{} tfields:{:?} tags:{:?}}}",
        show_olangid(&o.id),
        o.attrs,
        o.keywords,
        o.tlang.as_ref().map(show_olangid).unwrap_or_else(|| "None".into()),
        o.tfields,
        o.tags
    )
}

/// Builds an implementation LanguageIdentifier from a model value through the *typed* safe
/// API (`from_parts` with parsed subtags).
pub fn langid_from_model(m: &MLangId) -> LanguageIdentifier {
    use unic_langid_impl::subtags::*;
    let lang: Language = match &m.lang {
        Some(l) => l.parse().expect("model language must be valid"),
        None => Language::default(),
    };
    let script: Option<Script> = m.script.as_ref().map(|s| s.parse().expect("model script"));
    let region: Option<Region> = m.region.as_ref().map(|s| s.parse().expect("model region"));
    let variants: Vec<Variant> = m.variants.iter().map(|v| v.parse().expect("model variant")).collect();
    LanguageIdentifier::from_parts(lang, script, region, &variants)
}

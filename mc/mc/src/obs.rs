//! Observation of implementation values through the public getters only, in a form that can
//! be compared with the reference model field by field.

use refmodel::{MLangId, MLocale};
use unic_langid_impl::LanguageIdentifier;
use unic_locale_impl::Locale;

#[derive(Clone, Debug, PartialEq, Eq, Hash, Default)]
pub struct OLangId {
    pub lang: Option<String>,
    pub script: Option<String>,
    pub region: Option<String>,
    /// in the order the getter yields them
    pub variants: Vec<String>,
}

#[derive(Clone, Debug, PartialEq, Eq, Hash, Default)]
pub struct OLocale {
    pub id: OLangId,
    pub attrs: Vec<String>,
    pub keywords: Vec<(String, Vec<String>)>,
    pub tlang: Option<OLangId>,
    pub tfields: Vec<(String, Vec<String>)>,
    pub tags: Vec<String>,
}

pub fn obs_langid(li: &LanguageIdentifier) -> OLangId {
    let l = li.language.as_str();
    OLangId {
        lang: if l == "und" { None } else { Some(l.to_string()) },
        script: li.script.as_ref().map(|s| s.as_str().to_string()),
        region: li.region.as_ref().map(|s| s.as_str().to_string()),
        variants: li.variants().map(|v| v.as_str().to_string()).collect(),
    }
}

pub fn obs_locale(loc: &Locale) -> OLocale {
    let u = &loc.extensions.unicode;
    let t = &loc.extensions.transform;
    let p = &loc.extensions.private;
    OLocale {
        id: obs_langid(&loc.id),
        attrs: u.attributes().map(|s| s.to_string()).collect(),
        keywords: u
            .keyword_keys()
            .map(|k| {
                let vals = match u.keyword(k) {
                    Ok(it) => it.map(|s| s.to_string()).collect(),
                    Err(e) => vec![format!("<keyword({}) failed: {:?}>", k, e)],
                };
                (k.to_string(), vals)
            })
            .collect(),
        tlang: t.tlang().map(obs_langid),
        tfields: t
            .tfield_keys()
            .map(|k| {
                let vals = match t.tfield(k) {
                    Ok(it) => it.map(|s| s.to_string()).collect(),
                    Err(e) => vec![format!("<tfield({}) failed: {:?}>", k, e)],
                };
                (k.to_string(), vals)
            })
            .collect(),
        tags: p.tags().map(|s| s.to_string()).collect(),
    }
}

pub fn exp_langid(m: &MLangId) -> OLangId {
    OLangId {
        lang: m.lang.clone(),
        script: m.script.clone(),
        region: m.region.clone(),
        variants: m.variants.iter().cloned().collect(),
    }
}

pub fn exp_locale(m: &MLocale) -> OLocale {
    OLocale {
        id: exp_langid(&m.id),
        attrs: m.attrs.iter().cloned().collect(),
        keywords: m.keywords.iter().map(|(k, v)| (k.clone(), v.clone())).collect(),
        tlang: m.tlang.as_ref().map(exp_langid),
        tfields: m.tfields.iter().map(|(k, v)| (k.clone(), v.clone())).collect(),
        tags: m.tags.clone(),
    }
}

/// name of the first field in which two observations differ
pub fn diff_langid(a: &OLangId, b: &OLangId) -> Option<&'static str> {
    if a.lang != b.lang {
        Some("language")
    } else if a.script != b.script {
        Some("script")
    } else if a.region != b.region {
        Some("region")
    } else if a.variants != b.variants {
        Some("variants")
    } else {
        None
    }
}

pub fn diff_locale(a: &OLocale, b: &OLocale) -> Option<&'static str> {
    if let Some(d) = diff_langid(&a.id, &b.id) {
        return Some(d);
    }
    if a.attrs != b.attrs {
        Some("attributes")
    } else if a.keywords != b.keywords {
        Some("keywords")
    } else if a.tlang != b.tlang {
        Some("tlang")
    } else if a.tfields != b.tfields {
        Some("tfields")
    } else if a.tags != b.tags {
        Some("private tags")
    } else {
        None
    }
}

pub fn show_olangid(o: &OLangId) -> String {
    format!(
        "{{lang:{:?} script:{:?} region:{:?} variants:{:?}}}",
        o.lang, o.script, o.region, o.variants
    )
}
pub fn show_olocale(o: &OLocale) -> String {
    format!(
        "{{id:{} attrs:{:?} keywords:{:?} tlang:{} tfields:{:?} tags:{:?}}}",
        show_olangid(&o.id),
        o.attrs,
        o.keywords,
        o.tlang.as_ref().map(show_olangid).unwrap_or_else(|| "None".into()),
        o.tfields,
        o.tags
    )
}

/// Builds an implementation LanguageIdentifier from a model value through the *typed* safe
/// API (`from_parts` with parsed subtags).
pub fn langid_from_model(m: &MLangId) -> LanguageIdentifier {
    use unic_langid_impl::subtags::*;
    let lang: Language = match &m.lang {
        Some(l) => l.parse().expect("model language must be valid"),
        None => Language::default(),
    };
    let script: Option<Script> = m.script.as_ref().map(|s| s.parse().expect("model script"));
    let region: Option<Region> = m.region.as_ref().map(|s| s.parse().expect("model region"));
    let variants: Vec<Variant> = m.variants.iter().map(|v| v.parse().expect("model variant")).collect();
    LanguageIdentifier::from_parts(lang, script, region, &variants)
}

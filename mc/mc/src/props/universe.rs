//! The CLDR subtag universe L x S x R (shared by C06-C08, C14, C01).

use refmodel::likely::{Id, Likely, Triple};
use serde_json::{json, Value};
use std::collections::BTreeMap;
use unic_langid_impl::subtags::{Language, Region, Script};

pub type LTriple = (Language, Option<Script>, Option<Region>);

pub struct Universe {
    pub lk: Likely,
    pub langs: Vec<Language>,
    pub scripts: Vec<Option<Script>>,
    pub regions: Vec<Option<Region>>,
}

pub fn load_likely(repo: &str) -> Likely {
    let txt = std::fs::read_to_string(format!("{}/unic-langid-impl/data/likelySubtags.json", repo))
        .expect("likelySubtags.json");
    let v: Value = serde_json::from_str(&txt).expect("json");
    let mut entries = BTreeMap::new();
    for (k, val) in v["supplemental"]["likelySubtags"].as_object().expect("likelySubtags object") {
        entries.insert(k.clone(), val.as_str().expect("string value").to_string());
    }
    // unknown representatives: below the first key, in the middle and above the last key of each
    // table in the little-endian integer order the binary searches use, for every subtag length
    Likely::new(entries, &["xx", "zz", "qqq", "zzz", "qqqqq", "zzzzzzzz"], &["Aaaa", "Qaaa", "Zzzz"], &["AA", "QQ", "ZZ", "000", "999"])
}

pub fn cldr_version(repo: &str) -> String {
    let txt = std::fs::read_to_string(format!("{}/unic-langid-impl/data/likelySubtags.json", repo)).unwrap();
    let v: Value = serde_json::from_str(&txt).unwrap();
    v["supplemental"]["version"]["_cldrVersion"].as_str().unwrap().to_string()
}

/// one Universe per process for the replay paths (re-loading the JSON for every replayed case
/// would make concurrent replays far too slow to overlap)
pub fn shared(repo: &str) -> &'static Universe {
    static U: std::sync::OnceLock<(String, Universe)> = std::sync::OnceLock::new();
    let (r, u) = U.get_or_init(|| (repo.to_string(), Universe::new(repo)));
    assert_eq!(r, repo, "one repository per process");
    u
}

impl Universe {
    pub fn new(repo: &str) -> Universe {
        let lk = load_likely(repo);
        let langs = lk
            .langs
            .iter()
            .map(|s| if s.is_empty() { Language::default() } else { s.parse().expect("CLDR language parses") })
            .collect();
        let scripts = lk
            .scripts
            .iter()
            .map(|s| if s.is_empty() { None } else { Some(s.parse().expect("CLDR script parses")) })
            .collect();
        let regions = lk
            .regions
            .iter()
            .map(|s| if s.is_empty() { None } else { Some(s.parse().expect("CLDR region parses")) })
            .collect();
        Universe { lk, langs, scripts, regions }
    }
    pub fn size(&self) -> u64 {
        self.langs.len() as u64 * self.scripts.len() as u64 * self.regions.len() as u64
    }
    #[inline]
    pub fn decode(&self, idx: u64) -> Triple {
        let nr = self.regions.len() as u64;
        let ns = self.scripts.len() as u64;
        ((idx / (nr * ns)) as Id, ((idx / nr) % ns) as Id, (idx % nr) as Id)
    }
    #[inline]
    pub fn lib(&self, t: Triple) -> LTriple {
        (self.langs[t.0 as usize], self.scripts[t.1 as usize], self.regions[t.2 as usize])
    }
    pub fn show_lib(t: &Option<LTriple>) -> String {
        match t {
            None => "None".into(),
            Some((l, s, r)) => {
                let mut x = l.to_string();
                if let Some(s) = s {
                    x.push('-');
                    x.push_str(s.as_str());
                }
                if let Some(r) = r {
                    x.push('-');
                    x.push_str(r.as_str());
                }
                format!("Some({})", x)
            }
        }
    }
    pub fn show_ref(&self, t: Option<Triple>) -> String {
        match t {
            None => "None".into(),
            Some(t) => format!("Some({})", self.lk.show(t)),
        }
    }
    pub fn describe(&self) -> Value {
        json!({
            "languages": self.langs.len(), "scripts": self.scripts.len(), "regions": self.regions.len(),
            "note": format!("index 0 of each list = absent; unknown representatives (not in CLDR): languages {:?}, scripts {:?}, regions {:?}", &self.lk.langs[self.lk.known.0..], &self.lk.scripts[self.lk.known.1..], &self.lk.regions[self.lk.known.2..]),
            "triples": self.size(), "cldr_entries": self.lk.entries.len(),
        })
    }
}


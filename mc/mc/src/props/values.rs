//! Properties about *values* reached along three routes (parsing, from_parts, mutation
//! histories): C01, C04, C05, C12, C17.  Each combines the input sweeps of `inputs.rs`
//! (parse route), a complete product over typed subtags (from_parts route) and the E3
//! explorations of `history.rs` (mutation route).

use super::history::{self, fill_report, hash_of, run_harnesses};
use super::inputs::{self, sweep, SweepPlan};
use super::subtags;
use crate::engine::*;
use crate::obs::*;
use crate::spaces::*;
use refmodel::{self as rm, MLangId, MLocale, Zone};
use serde_json::json;
use std::cmp::Ordering as Ord3;
use std::collections::{BTreeMap, BTreeSet};
use std::str::FromStr;
use unic_langid_impl::subtags::{Language, Region, Script, Variant};
use unic_langid_impl::LanguageIdentifier;
use unic_locale_impl::{ExtensionsMap, Locale};

// ------------------------------------------------------------------------------------------
// the from_parts product (DESIGN §4 C04 (b))
// ------------------------------------------------------------------------------------------

/// One value per SAFE way of constructing the subtag from this text: the property speaks of
/// values "obtainable through the safe API", and the constructors are separate pieces of code
/// (`from_bytes`, `FromStr`, and for `Language` the `TryFrom<Option<_>>` impl).
macro_rules! subtag_ctors {
    (Language, $b:expr) => {{
        let b: &[u8] = $b;
        let mut v: Vec<(&'static str, Out<Language>)> = vec![("from_bytes", guard(|| Language::from_bytes(b)))];
        if let Ok(s) = std::str::from_utf8(b) {
            v.push(("from_str", guard(|| Language::from_str(s))));
            v.push(("try_from(Some(&str))", guard(|| <Language as std::convert::TryFrom<Option<&str>>>::try_from(Some(s)))));
        }
        v.push(("try_from(Some(&[u8]))", guard(|| <Language as std::convert::TryFrom<Option<&[u8]>>>::try_from(Some(b)))));
        v
    }};
    ($ty:ident, $b:expr) => {{
        let b: &[u8] = $b;
        let mut v: Vec<(&'static str, Out<$ty>)> = vec![("from_bytes", guard(|| $ty::from_bytes(b)))];
        if let Ok(s) = std::str::from_utf8(b) {
            v.push(("from_str", guard(|| $ty::from_str(s))));
        }
        v
    }};
}


// (two of the five are an order-hazard pair: `aaaaz` < `zaaaa` lexicographically, the other way
// round as little-endian integers; `fonipa` vs `zaaaa` separates length-first orders)
pub const FP_VARIANTS: [&str; 5] = ["valencia", "1996", "fonipa", "zaaaa", "aaaaz"];

pub struct PartsDomain {
    pub ids: Vec<(Language, Option<Script>, Option<Region>, MLangId)>,
    /// every list of length <= 4 over FP_VARIANTS (781), as indices
    pub lists: Vec<Vec<u8>>,
    pub variants: Vec<Variant>,
    /// extension strings (without leading '-') with their parsed map and model
    pub exts: Vec<(String, ExtensionsMap, MLocale)>,
    /// well-formed canonical extension strings that the library refuses to parse
    pub rejected_exts: Vec<(String, String)>,
}

pub fn parts_domain(all_ext_shapes: bool) -> PartsDomain {
    let mut ids = vec![];
    for l in LANGS_FULL {
        for s in SCRIPTS {
            for r in REGIONS {
                let lang = Language::from_str(l).expect("lang");
                let script = if s.is_empty() { None } else { Some(Script::from_str(s).expect("script")) };
                let region = if r.is_empty() { None } else { Some(Region::from_str(r).expect("region")) };
                let m = MLangId {
                    lang: if l == "und" { None } else { Some(l.to_string()) },
                    script: if s.is_empty() { None } else { Some(s.to_string()) },
                    region: if r.is_empty() { None } else { Some(r.to_string()) },
                    variants: BTreeSet::new(),
                };
                ids.push((lang, script, region, m));
            }
        }
    }
    let mut lists: Vec<Vec<u8>> = vec![vec![]];
    let mut level: Vec<Vec<u8>> = vec![vec![]];
    for _ in 0..4 {
        let mut next = vec![];
        for l in &level {
            for a in 0..FP_VARIANTS.len() as u8 {
                let mut x = l.clone();
                x.push(a);
                next.push(x);
            }
        }
        lists.extend(next.iter().cloned());
        level = next;
    }
    let variants = FP_VARIANTS.iter().map(|v| Variant::from_str(v).expect("variant")).collect();
    let mut exts = vec![];
    let mut rejected: Vec<(String, String)> = vec![];
    let us: Vec<&str> = if all_ext_shapes { U_SHAPES.to_vec() } else { vec!["", "u-abc-ca-buddhist"] };
    let ts: Vec<&str> = if all_ext_shapes { T_SHAPES.to_vec() } else { vec!["", "t-de-h0-hybrid"] };
    let xs: Vec<&str> = if all_ext_shapes { X_SHAPES.to_vec() } else { vec!["", "x-zz-a"] };
    for u in &us {
        for t in &ts {
            for x in &xs {
                let parts: Vec<&str> = [*t, *u, *x].iter().copied().filter(|p| !p.is_empty()).collect();
                let s = parts.join("-");
                let em = match guard(|| ExtensionsMap::from_str(&s)) {
                    Out::Ok(em) => em,
                    o => {
                        rejected.push((s.clone(), o.brief(|x| x.to_string())));
                        continue;
                    }
                };
                let txt = if s.is_empty() { "und".to_string() } else { format!("und-{}", s) };
                let toks = rm::split_tokens(txt.as_bytes());
                let m = rm::run_locale(&toks, rm::Mode::StrictBareTkey).expect("shape is well-formed").value;
                exts.push((s, em, m));
            }
        }
    }
    PartsDomain { ids, lists, variants, exts, rejected_exts: rejected }
}

impl PartsDomain {
    pub fn size(&self) -> u64 {
        (self.ids.len() * self.lists.len() * self.exts.len()) as u64
    }
    pub fn decode(&self, idx: u64) -> (usize, usize, usize) {
        let ne = self.exts.len() as u64;
        let nl = self.lists.len() as u64;
        ((idx / (ne * nl)) as usize, ((idx / ne) % nl) as usize, (idx % ne) as usize)
    }
    pub fn build(&self, idx: u64) -> (LanguageIdentifier, Locale, MLocale, String) {
        let (i, li, ei) = self.decode(idx);
        let (lang, script, region, mid) = &self.ids[i];
        let vs: Vec<Variant> = self.lists[li].iter().map(|k| self.variants[*k as usize]).collect();
        let id = LanguageIdentifier::from_parts(*lang, *script, *region, &vs);
        let loc = Locale::from_parts(*lang, *script, *region, &vs, Some(self.exts[ei].1.clone()));
        let mut m = self.exts[ei].2.clone();
        m.id = mid.clone();
        m.id.variants = self.lists[li].iter().map(|k| FP_VARIANTS[*k as usize].to_string()).collect();
        let desc = format!(
            "parts:{}|{}|{}|{}|{}",
            lang,
            script.map(|s| s.to_string()).unwrap_or_default(),
            region.map(|s| s.to_string()).unwrap_or_default(),
            self.lists[li].iter().map(|k| FP_VARIANTS[*k as usize]).collect::<Vec<_>>().join(","),
            self.exts[ei].0
        );
        (id, loc, m, desc)
    }
}

fn pviol(coll: &Collector, order: u64, sub: &'static str, class: &str, desc: &str, expected: String, observed: String) {
    coll.push(order, Violation { sub, class: class.to_string(), case: Case::Text(desc.to_string()), expected, observed });
}

/// C04 / C05 / C17 on one element of the from_parts product
pub fn check_parts(d: &PartsDomain, idx: u64, l: &mut Local, coll: &Collector) {
    let built = guard_total(|| d.build(idx));
    let (id, loc, m, desc) = match built {
        Ok(x) => x,
        Err(p) => {
            pviol(coll, l.order, "c01.panic", "from_parts panics", &format!("partsidx:{}", idx), "a value".into(), p);
            return;
        }
    };
    l.nontrivial += 1;
    let r = guard_total(|| {
        let mut out: Vec<(&'static str, &'static str, String, String)> = vec![];
        let s = loc.to_string();
        let ids = id.to_string();
        if s != m.canon() {
            out.push(("c04.canon", "from_parts: to_string is not the canonical form", m.canon(), s.clone()));
        }
        if ids != m.id.canon() {
            out.push(("c04.langid_canon", "from_parts: langid to_string is not the canonical form", m.id.canon(), ids.clone()));
        }
        if let Err(why) = rm::check_canonical_locale_string(&s) {
            out.push(("c04.wellformed", "from_parts: output not well-formed/canonical", "a well-formed canonical identifier".into(), format!("{} ({})", s, why)));
        }
        if let Err(why) = rm::check_canonical_langid_string(&ids) {
            out.push(("c04.langid_wellformed", "from_parts: langid output not well-formed/canonical", "a well-formed canonical language identifier".into(), format!("{} ({})", ids, why)));
        }
        match Locale::from_str(&s) {
            Ok(l2) if l2 == loc => {}
            o => out.push(("c05.locale", "from_parts: own output does not re-parse to an equal value", format!("Ok({:?})", loc), format!("{:?} for {}", o, s))),
        }
        match LanguageIdentifier::from_str(&ids) {
            Ok(l2) if l2 == id => {}
            o => out.push(("c05.langid", "from_parts: langid output does not re-parse to an equal value", format!("Ok({:?})", id), format!("{:?} for {}", o, ids))),
        }
        if loc.id != id {
            out.push(("c17.parts", "Locale::from_parts(..).id != LanguageIdentifier::from_parts(..)", format!("{:?}", id), format!("{:?}", loc.id)));
        }
        // from_parts == parsing the joined string (variants in the given order, duplicates kept)
        let (_, li, _) = d.decode(idx);
        let (lang, script, region, _) = &d.ids[d.decode(idx).0];
        let mut joined = lang.to_string();
        if let Some(sc) = script {
            joined.push('-');
            joined.push_str(sc.as_str());
        }
        if let Some(r) = region {
            joined.push('-');
            joined.push_str(r.as_str());
        }
        for k in &d.lists[li] {
            joined.push('-');
            joined.push_str(FP_VARIANTS[*k as usize]);
        }
        match LanguageIdentifier::from_str(&joined) {
            Ok(p) if p == id => {}
            o => out.push(("c17.parts_parse", "from_parts differs from parsing the joined string", format!("{:?}", id), format!("{:?} for {}", o, joined))),
        }
        let (a, b, c, v) = id.clone().into_parts();
        let back = LanguageIdentifier::from_parts(a, b, c, &v);
        if back != id {
            out.push(("c17.parts", "LanguageIdentifier::from_parts(into_parts(x)) != x", format!("{:?}", id), format!("{:?}", back)));
        }
        let (a, b, c, v, e) = loc.clone().into_parts();
        match ExtensionsMap::from_str(&e) {
            Ok(em) => {
                let back = Locale::from_parts(a, b, c, &v, Some(em));
                if back != loc {
                    out.push(("c17.parts", "Locale::from_parts(into_parts(x)) != x", format!("{:?}", loc), format!("{:?}", back)));
                }
            }
            Err(err) => out.push(("c17.parts", "the extension string of into_parts does not parse", format!("Ok for {:?}", e), format!("{:?}", err))),
        }
        out
    });
    match r {
        Ok(out) => {
            for (sub, class, e, o) in out {
                pviol(coll, l.order, sub, class, &format!("partsidx:{} {}", idx, desc), e, o);
            }
        }
        Err(p) => pviol(coll, l.order, "c01.panic", "a call on a from_parts value panics", &format!("partsidx:{} {}", idx, desc), "no panic".into(), p),
    }
    if l.wants((idx % 7) as u32) {
        l.sample((idx % 7) as u32, desc.as_bytes(), || format!("-> {}", loc));
    }
}

pub fn replay_parts(text: &str, coll: &Collector) {
    let Some(rest) = text.strip_prefix("partsidx:") else { return };
    let n: u64 = match rest.split(' ').next().and_then(|x| x.parse().ok()) {
        Some(n) => n,
        None => return,
    };
    let d = parts_domain(true);
    if n < d.size() {
        let mut l = Local::new();
        check_parts(&d, n, &mut l, coll);
    }
}

fn run_parts(ctx: &Ctx, rep: &mut Report) {
    let d = parts_domain(true);
    let coll = std::mem::take(&mut rep.collector);
    for (i, (s, why)) in d.rejected_exts.iter().enumerate() {
        // the canonical serialisation of an extension map that the mutators can build
        coll.push(i as u64, Violation { sub: "c05.extensions", class: "ExtensionsMap::from_str rejects a canonical extension string".into(), case: Case::Input(format!("und-{}", s).into_bytes()), expected: format!("Ok({})", s), observed: why.clone() });
    }
    let st = par_range(ctx, "E4.from_parts", d.size(), 1 << 10, &|idx, l| check_parts(&d, idx, l, &coll));
    rep.collector = coll;
    rep.add_space(
        "E4.from_parts",
        json!({"kind": "complete product: 24 (language, script, region) x every variant list of length <= 4 over 5 variants (781, order and duplicates included) x every extension shape (u x t x x)",
               "language_ids": d.ids.len(), "variant_lists": d.lists.len(), "extension_shapes": d.exts.len(), "values": d.size()}),
        &st,
    );
    rep.distinct_nontrivial += st.local.nontrivial;
    rep.samples.extend(st.local.samples_json(3));
}

/// `ExtensionsMap::other` is a public field.  The parser never fills it and today's serialiser
/// ignores it; C05 leaves it out explicitly.  C04 does not: a value whose `other` map has been
/// assigned is "obtainable through the safe API", and its text must be canonical.  Two outputs are
/// canonical readings of such a value: (A) the text without the other extensions (the field is not
/// serialised -- the current library), or (B) the text with every extension in UTS #35 canonical
/// order: singletons in alphabetical order, private use last (which keeps t before u before x).
/// Anything else -- e.g. the other extensions in front of -t-/-u-, or behind -x- -- is a violation.
/// re-executes one recorded case `other:<base>|<k>-<subtag>-...,<k>-...`
pub fn replay_other(text: &str, coll: &Collector) {
    let Some(rest) = text.strip_prefix("other:") else { return };
    let Some((base, ents)) = rest.split_once('|') else { return };
    let parsed: Vec<(char, Vec<&str>)> = ents
        .split(',')
        .filter_map(|e| {
            let mut it = e.split('-');
            let k = it.next()?.chars().next()?;
            Some((k, it.collect()))
        })
        .collect();
    let entries: Vec<(char, &[&str])> = parsed.iter().map(|(k, v)| (*k, v.as_slice())).collect();
    check_other_case(base, &entries, 0, coll, &mut 0);
}

fn check_other_case(base: &str, entries: &[(char, &[&str])], order: u64, coll: &Collector, printed: &mut u64) {
    use tinystr::TinyAsciiStr;
    let r = guard_total(|| {
        let mut loc: Locale = base.parse().expect("base locale");
        let plain = loc.to_string();
        for (k, v) in entries {
            let list: Vec<TinyAsciiStr<8>> = v.iter().map(|x| x.parse().expect("tinystr")).collect();
            loc.extensions.other.insert(*k, list);
        }
        (plain, loc.to_string(), loc.id.to_string(), loc.extensions.transform.to_string(), loc.extensions.unicode.to_string(), loc.extensions.private.to_string())
    });
    let desc = format!("other:{}|{}", base, entries.iter().map(|(k, v)| format!("{}-{}", k, v.join("-"))).collect::<Vec<_>>().join(","));
    match r {
        Ok((plain, got, id, t, u, x)) => {
            // (B): singletons in alphabetical order, private use last
            let mut parts: Vec<(char, String)> = entries.iter().map(|(k, v)| (*k, format!("-{}-{}", k, v.join("-")))).collect();
            if !t.is_empty() {
                parts.push(('t', t));
            }
            if !u.is_empty() {
                parts.push(('u', u));
            }
            parts.sort();
            let full = format!("{}{}{}", id, parts.iter().map(|p| p.1.as_str()).collect::<String>(), x);
            if got != plain {
                *printed += 1;
            }
            if got != plain && got != full {
                pviol(coll, order, "c04.other", "a value with assigned `other` extensions is serialised neither without them nor in canonical singleton order", &desc, format!("{} or {}", plain, full), got);
            }
        }
        Err(p) => pviol(coll, order, "c04.other", "serialising a value with assigned `other` extensions panics", &desc, "a string".into(), p),
    }
}

fn run_other_field(rep: &mut Report) {
    let coll = std::mem::take(&mut rep.collector);
    let bases = ["en", "en-US-u-ca-buddhist", "en-t-es-AR-h0-hybrid", "en-x-priv", "en-US-valencia-t-es-AR-h0-hybrid-u-abc-ca-buddhist-x-priv-zz", "und-u-nu"];
    // every singleton of the `other` production: [0-9 a-s v-w y-z]
    let keys: Vec<char> = ('0'..='9').chain('a'..='z').filter(|c| !matches!(c, 't' | 'u' | 'x')).collect();
    let vals: [&[&str]; 2] = [&["foo"], &["bar12345", "ab"]];
    let mut n = 0u64;
    let mut printed = 0u64;
    let mut check = |base: &str, entries: &[(char, &[&str])]| {
        n += 1;
        check_other_case(base, entries, n, &coll, &mut printed);
    };
    for base in bases {
        for (i, k1) in keys.iter().enumerate() {
            for v in vals {
                check(base, &[(*k1, v)]);
            }
            for k2 in &keys[i + 1..] {
                check(base, &[(*k1, vals[0]), (*k2, vals[1])]);
                check(base, &[(*k2, vals[0]), (*k1, vals[1])]);
            }
        }
    }
    rep.collector = coll;
    rep.states += n;
    rep.transitions += n;
    rep.traces += n;
    rep.evaluations += n;
    rep.extra.insert("other_field".into(), json!({"kind": "6 base locales x every one and every two of the 33 `other` singletons [0-9a-sv-wy-z] assigned to the public field ExtensionsMap::other: to_string must be the text without them or the text with all extensions in canonical singleton order (private use last)",
        "values": n, "values_whose_text_shows_the_other_extensions": printed}));
}

fn keep_only(rep: &mut Report, prefixes: &[&str]) {
    // the shared per-value checks report under several properties; keep this property's
    rep.collector.retain(|sub| prefixes.iter().any(|p| sub.starts_with(p)));
}

// ------------------------------------------------------------------------------------------
// C01
// ------------------------------------------------------------------------------------------

fn big_inputs() -> Vec<Vec<u8>> {
    let mut v: Vec<Vec<u8>> = vec![];
    let rep = |head: &str, f: &dyn Fn(usize) -> String, n: usize| -> Vec<u8> {
        let mut s = head.to_string();
        for i in 0..n {
            s.push('-');
            s.push_str(&f(i));
        }
        s.into_bytes()
    };
    let n = 100_000;
    v.push(rep("en", &|i| format!("a{:05}", i % 100000), n)); // 10^5 distinct variants
    v.push(rep("en", &|_| "valencia".into(), n)); // 10^5 equal variants
    v.push(rep("en-x", &|i| format!("{:x}", i), n)); // 10^5 private tags
    v.push(rep("en-u", &|i| format!("a{:05}", i), n)); // 10^5 attributes
    v.push(rep("en-u", &|i| if i % 2 == 0 { format!("{}{}", (b'a' + (i / 2 % 26) as u8) as char, (b'a' + (i / 52 % 26) as u8) as char) } else { "foo".into() }, n)); // keywords
    v.push(rep("en-t", &|i| if i % 2 == 0 { format!("{}{}", (b'a' + (i / 2 % 26) as u8) as char, i / 52 % 10) } else { "foo".into() }, n)); // tfields
    v.push(rep("en-t-de", &|i| format!("a{:05}", i), n)); // tlang with 10^5 variants
    v.push(rep("en", &|_| String::new(), n)); // 10^5 empty subtags
    v.push(rep("en-u-ca", &|_| "true".into(), n)); // 10^5 dropped values
    let mut one = b"en-".to_vec();
    one.extend(std::iter::repeat(b'a').take(1 << 20)); // a 1 MiB subtag
    v.push(one);
    v.push(std::iter::repeat(b'a').take(1 << 20).collect());
    v.push(std::iter::repeat(b'-').take(1 << 20).collect());
    v.push(std::iter::repeat(0xffu8).take(1 << 16).collect());
    let mut nest = b"en".to_vec();
    for _ in 0..20000 {
        nest.extend_from_slice(b"-t-en"); // repeated singletons with tlangs
    }
    v.push(nest);
    let mut alt = b"en".to_vec();
    for i in 0..20000 {
        alt.extend_from_slice(if i % 2 == 0 { b"-u-ca" } else { b"-t-h0" });
    }
    v.push(alt);
    v
}

/// totality of the likely-subtags and direction queries on one triple
#[cfg(feature = "likelysubtags")]
pub fn check_c01_triple(u: &super::universe::Universe, t: rm::likely::Triple, l: &mut Local, coll: &Collector) {
    use unic_langid_impl::likelysubtags;
    let x = u.lib(t);
    let r = guard_total(|| {
        let a = likelysubtags::maximize(x.0, x.1, x.2);
        let b = likelysubtags::minimize(x.0, x.1, x.2);
        let mut li = LanguageIdentifier::from_parts(x.0, x.1, x.2, &[]);
        let d = li.character_direction();
        li.maximize();
        li.minimize();
        (a.is_some(), b.is_some(), d)
    });
    match r {
        Ok((a, b, _)) => {
            l.counters[a as usize] += 1;
            l.counters[2 + b as usize] += 1;
            l.nontrivial += (a || b) as u64;
        }
        Err(p) => pviol(coll, l.order, "c01.panic", &format!("maximize/minimize/character_direction panics: {}", p.split(" at ").next().unwrap_or("")), &format!("triple:{}", u.lk.show(t)), "a value".into(), p),
    }
}

pub fn run_c01(ctx: &Ctx) -> Report {
    let mut rep = Report::new();
    // (a) every text-accepting entry point on the E1/E2 spaces
    let mut plan = SweepPlan::standard(ctx);
    if ctx.quick() {
        // 32 entry points per input: one level less than C03 on the widest alphabets
        plan.e1_mini_depth = 5;
    }
    let all = sweep(ctx, &plan, &mut rep, &inputs::check_c01_input);
    rep.extra.insert("entry_point_calls_on_E1_E2".into(), json!(all.counters[0]));
    // (b) textual arguments of the getters/setters
    super::args::run_arg_sweep(ctx, &mut rep, false);
    let coll = std::mem::take(&mut rep.collector);
    // ExtensionType::from_byte: all 256 bytes
    {
        let l = Local::new();
        let mut ok = 0;
        for b in 0..=255u8 {
            match guard(|| unic_locale_impl::extensions::ExtensionType::from_byte(b)) {
                Out::Panic(p) => pviol(&coll, l.order, "c01.panic", "ExtensionType::from_byte panics", &format!("byte:{}", b), "Ok or Err".into(), p),
                Out::Ok(_) => ok += 1,
                Out::Err(_) => {}
            }
        }
        rep.states += 256;
        rep.transitions += 256;
        rep.traces += 256;
        rep.evaluations += 256;
        rep.extra.insert("extension_type_from_byte".into(), json!({"bytes": 256, "accepted": ok}));
    }
    // (c) every (language, script, region) of the CLDR universe through the likely-subtags and
    //     direction queries
    #[cfg(feature = "likelysubtags")]
    {
        let u = super::universe::Universe::new(&ctx.repo);
        let st = par_range(ctx, "E4.triples", u.size(), 1 << 14, &|idx, l| {
            check_c01_triple(&u, u.decode(idx), l, &coll);
        });
        rep.add_space("E4.triples", u.describe(), &st);
        rep.extra.insert("triple_results".into(), json!({"maximize_none": st.local.counters[0], "maximize_some": st.local.counters[1], "minimize_none": st.local.counters[2], "minimize_some": st.local.counters[3]}));
    }
    // (d) large inputs: stack depth and super-linear behaviour (watchdog: 5 s of thread CPU time per input)
    {
        let items = big_inputs();
        let sizes: Vec<usize> = items.iter().map(|b| b.len()).collect();
        let sp = ListSpace { label: "E4.large".into(), items, what: "fixed list of large inputs (10^5 variants / tags / attributes / keywords / tfields / empty subtags, 1 MiB subtags, 20000 repeated extensions)".into() };
        let st = run_space(ctx, &sp, 1, &|b, l| inputs::check_c01_input(b, l, &coll));
        rep.add_space("E4.large", json!({"inputs": sizes.len(), "bytes_each": sizes}), &st);
    }
    rep.collector = coll;
    // (e) no public call panics on any value reachable in the E3 harnesses
    let sum = run_harnesses(ctx, history::std_set(ctx), &["c01."], &mut rep, false);
    super::counts::run_count_histories(ctx, &mut rep, &["c01."]);
    fill_report(&mut rep, &sum, "C01: every mutator/getter/serialiser call on every reachable value returns");
    keep_only(&mut rep, &["c01."]);
    #[cfg(feature = "likelysubtags")]
    for fam in ["parse", "maximize", "minimize", "direction"] {
        // a deadlock or a livelock between concurrent callers is a hang: shuttle reports both
        super::conc::run_family_mode(ctx, fam, "c01.schedule", &mut rep, true);
    }
    rep.rule = "Totality. (a) E1 token trees + E2 skeletons and edit neighbourhoods through 32 text-accepting entry points of both crates (parsers, FromStr, canonicalize, try_from_iter, ExtensionsMap, the four subtag constructors, serde Deserialize from str / String / JSON and Serialize of every accepted value); (b) every byte string of length <= 2 and boundary-class strings to length 9 as the argument of 15 getter/setter functions on three receivers; (c) every (language, script, region) of the CLDR universe through maximize, minimize and character_direction; (d) a fixed list of large inputs under the per-case watchdog (5 s of thread CPU time); (e) every call made in the E3 harnesses. The oracle is: the call returns (Ok or Err), no panic, no hang, child exit status 0. distinct_nontrivial = inputs of the E1/E2 trees on which no entry point panicked (distinct by construction).".into();
    rep.assumptions = vec!["a hang is a case on which the executing thread spends more than 5 s of CPU time (thread clock, so machine load does not matter), or that stays current for 120 s of wall-clock time while its thread uses no CPU (blocked); abort/stack overflow is observed through the worker's exit status".into()];
    rep
}

// ------------------------------------------------------------------------------------------
// C04, C05
// ------------------------------------------------------------------------------------------

pub fn run_c04(ctx: &Ctx) -> Report {
    let mut rep = Report::new();
    let all = inputs::run_c04_inputs(ctx, &mut rep);
    rep.extra.insert("langid_accepted_inputs".into(), json!(all.counters[0]));
    if all.outcomes[0] == 0 {
        rep.engine_failures.push("vacuity guard: no accepted inputs".into());
    }
    run_parts(ctx, &mut rep);
    run_other_field(&mut rep);
    let sum = run_harnesses(ctx, history::std_set(ctx), &["c04."], &mut rep, false);
    super::counts::run_count_histories(ctx, &mut rep, &["c04."]);
    fill_report(&mut rep, &sum, "C04: to_string of every reachable value");
    keep_only(&mut rep, &["c04."]);
    #[cfg(feature = "likelysubtags")]
    super::conc::run_family(ctx, "shared", "c04.schedule", &mut rep);
    rep.rule = "Three routes to a value. Parse route: every accepted input of the E1 token trees and E2 skeleton/edit neighbourhoods; from_parts route: the complete product 24 ids x 781 variant lists x 480 extension shapes; mutation route: every state of the five E3 harnesses (explored to exhaustion). On each value to_string() must equal the independent canonicaliser applied to the model of the value, must be accepted by the independent strict recogniser as its own canonical form (charset, case, order, no 'true', nothing for empty extensions), canonicalize(s) must equal it and must not be longer than s. distinct_nontrivial = accepted inputs of the trees + from_parts values + distinct model values of E3.".into();
    rep.assumptions = vec!["reference canonicaliser and strict recogniser of DESIGN §3.1/§3.2".into(), "ExtensionsMap::other left empty (§6.4)".into()];
    rep
}

/// every valid subtag of a (reduced where stated) domain: parse(x.to_string()) == x
fn subtag_roundtrips(ctx: &Ctx, rep: &mut Report) {
    let coll = std::mem::take(&mut rep.collector);
    // scripts: all 26^4 letter skeletons x 16 case masks
    let n_scripts = 26u64.pow(4) * 16;
    let st = par_range(ctx, "E4.scripts", n_scripts, 1 << 12, &|idx, l| {
        let mask = (idx % 16) as u32;
        let mut k = idx / 16;
        let mut b = [0u8; 4];
        for i in (0..4).rev() {
            let c = b'a' + (k % 26) as u8;
            k /= 26;
            b[i] = if (mask >> i) & 1 == 1 { c.to_ascii_uppercase() } else { c };
        }
        match guard(|| Script::from_bytes(&b)) {
            Out::Ok(v) => {
                l.nontrivial += 1;
                let s = v.to_string();
                match Script::from_str(&s) {
                    Ok(v2) if v2 == v && s == rm::title(&b) => {}
                    o => coll.push(l.order, Violation { sub: "c05.subtag", class: "Script: to_string does not re-parse to an equal subtag".into(), case: Case::Input(b.to_vec()), expected: format!("Ok({})", rm::title(&b)), observed: format!("{:?} for {}", o, s) }),
                }
            }
            o => coll.push(l.order, Violation { sub: "c05.subtag", class: "Script: a valid script does not parse".into(), case: Case::Input(b.to_vec()), expected: "Ok".into(), observed: o.brief(|x| x.to_string()) }),
        }
    });
    rep.add_space("E4.scripts", json!({"kind": "every 4-letter script: 26^4 letter skeletons x 16 case masks", "inputs": n_scripts}), &st);
    rep.distinct_nontrivial += st.local.nontrivial;
    // regions (52^2 + 10^3), languages of 2-3 letters (52^2 + 52^3), 5-8 letters and variants over reduced alphabets
    let letters: Vec<u8> = (b'a'..=b'z').chain(b'A'..=b'Z').collect();
    let digits: Vec<u8> = (b'0'..=b'9').collect();
    let mut spaces: Vec<(Box<dyn Space>, &'static str)> = vec![
        (Box::new(ByteStrings::new("E4.regions.alpha2", letters.clone(), 2, 2)), "region"),
        (Box::new(ByteStrings::new("E4.regions.digit3", digits.clone(), 3, 3)), "region"),
        (Box::new(ByteStrings::new("E4.languages.2-3", letters.clone(), 2, 3)), "language"),
        (Box::new(ByteStrings::new("E4.languages.5-8", vec![b'a', b'M', b'z'], 5, 8)), "language"),
        (Box::new(ByteStrings::new("E4.variants.5-8", vec![b'a', b'Z', b'0', b'9'], 5, 8)), "variant"),
        (Box::new(ByteStrings::new("E4.variants.4", vec![b'a', b'Z', b'0', b'9', b'5', b'm'], 4, 4)), "variant"),
        (Box::new(ListSpace { label: "E4.special_words.language".into(), items: special_word_strings(), what: "special-cased words with affixes, as languages".into() }), "language"),
        (Box::new(ListSpace { label: "E4.special_words.variant".into(), items: special_word_strings(), what: "special-cased words with affixes, as variants".into() }), "variant"),
    ];
    for (sp, kind) in spaces.drain(..) {
        let st = run_space(ctx, sp.as_ref(), 1 << 12, &|b, l| {
            macro_rules! rt {
                ($ty:ident, $pred:expr, $norm:expr) => {{
                    for (i, (via, r)) in subtag_ctors!($ty, b).into_iter().enumerate() {
                        match r {
                            Out::Ok(v) => {
                                if i == 0 {
                                    l.nontrivial += 1;
                                }
                                let s = v.to_string();
                                match $ty::from_str(&s) {
                                    Ok(v2) if v2 == v && s == $norm(b) => {}
                                    o => coll.push(l.order, Violation { sub: "c05.subtag", class: format!("{} built with {}: to_string does not re-parse to an equal subtag", kind, via), case: Case::Input(b.to_vec()), expected: format!("Ok({})", $norm(b)), observed: format!("{:?} for {}", o, s) }),
                                }
                            }
                            o => {
                                if $pred(b) {
                                    coll.push(l.order, Violation { sub: "c05.subtag", class: format!("{}: a valid subtag does not parse with {}", kind, via), case: Case::Input(b.to_vec()), expected: "Ok".into(), observed: o.brief(|x| x.to_string()) });
                                }
                            }
                        }
                    }
                }};
            }
            match kind {
                "region" => rt!(Region, rm::is_region, rm::upper),
                "language" => rt!(Language, rm::is_lang, rm::lower),
                _ => rt!(Variant, rm::is_variant, rm::lower),
            }
        });
        rep.add_space(&sp.name(), sp.describe(), &st);
        rep.distinct_nontrivial += st.local.nontrivial;
    }
    rep.collector = coll;
}

/// replay of a "canonical extension string rejected" finding of the from_parts domain
pub fn replay_ext_string(b: &[u8], l: &mut Local, coll: &Collector) {
    let Ok(s) = std::str::from_utf8(b) else { return };
    let Some(ext) = s.strip_prefix("und-") else { return };
    if rm::check_canonical_locale_string(s).is_err() {
        return;
    }
    match guard(|| ExtensionsMap::from_str(ext)) {
        Out::Ok(_) => {}
        o => coll.push(l.order, Violation { sub: "c05.extensions", class: "ExtensionsMap::from_str rejects a canonical extension string".into(), case: Case::Input(b.to_vec()), expected: format!("Ok({})", ext), observed: o.brief(|x| x.to_string()) }),
    }
}

pub fn replay_subtag_rt(b: &[u8], l: &mut Local, coll: &Collector) {
    macro_rules! rt {
        ($ty:ident, $name:expr, $norm:expr) => {{
            for (via, r) in subtag_ctors!($ty, b) {
                if let Out::Ok(v) = r {
                    let s = v.to_string();
                    match $ty::from_str(&s) {
                        Ok(v2) if v2 == v && s == $norm(b) => {}
                        o => coll.push(l.order, Violation { sub: "c05.subtag", class: format!("{} built with {}: to_string does not re-parse to an equal subtag", $name, via), case: Case::Input(b.to_vec()), expected: format!("Ok({})", $norm(b)), observed: format!("{:?} for {}", o, s) }),
                    }
                }
            }
        }};
    }
    rt!(Script, "script", rm::title);
    rt!(Region, "region", rm::upper);
    rt!(Language, "language", rm::lower);
    rt!(Variant, "variant", rm::lower);
}

pub fn run_c05(ctx: &Ctx) -> Report {
    let mut rep = Report::new();
    let all = inputs::run_c05_inputs(ctx, &mut rep);
    let mut masks = serde_json::Map::new();
    for m in 0..8 {
        masks.insert(format!("u={} t={} x={}", m & 1, (m >> 1) & 1, (m >> 2) & 1), json!(all.counters[m]));
    }
    rep.extra.insert("accepted_locales_by_extension_mask".into(), serde_json::Value::Object(masks));
    if (0..8).any(|m| all.counters[m] == 0) {
        rep.engine_failures.push("vacuity guard: an extension combination never occurred among the accepted inputs".into());
    }
    run_parts(ctx, &mut rep);
    subtag_roundtrips(ctx, &mut rep);
    let sum = run_harnesses(ctx, history::std_set(ctx), &["c05."], &mut rep, false);
    super::counts::run_count_histories(ctx, &mut rep, &["c05."]);
    fill_report(&mut rep, &sum, "C05: parse(to_string(x)) == x on every reachable value");
    keep_only(&mut rep, &["c05."]);
    rep.rule = "parse(x.to_string()) == x with the library's own equality, on every value of three routes: every accepted input of the E1/E2 spaces (Locale, LanguageIdentifier, ExtensionsMap; canonicalize idempotent), the complete from_parts product (24 ids x 781 variant lists x 480 extension shapes), every state of the five E3 harnesses; and on every Script (26^4 x 16 case masks), every Region, every 2-3 letter Language, and 5-8 letter languages / variants over reduced alphabets. No reference model is involved. distinct_nontrivial = accepted tree inputs + product values + valid subtags + distinct E3 model values.".into();
    rep.assumptions = vec!["ExtensionsMap::other left empty, as the property states".into()];
    rep
}

// ------------------------------------------------------------------------------------------
// C17
// ------------------------------------------------------------------------------------------

pub fn check_c17_input(b: &[u8], l: &mut Local, coll: &Collector) {
    let viol = |l: &Local, sub: &'static str, class: &str, e: String, o: String| {
        coll.push(l.order, Violation { sub, class: class.to_string(), case: Case::Input(b.to_vec()), expected: e, observed: o });
    };
    if let Out::Ok(loc) = inputs::parse_locale(b) {
        l.nontrivial += 1;
        l.outcomes[0] += 1;
        let r = guard_total(|| {
            let (a, s, r, v, e) = loc.clone().into_parts();
            ExtensionsMap::from_str(&e).map(|em| Locale::from_parts(a, s, r, &v, Some(em))).map_err(|x| format!("{:?} for {:?}", x, e))
        });
        match r {
            Ok(Ok(back)) if back == loc => {}
            Ok(Ok(back)) => viol(l, "c17.parts", "Locale::from_parts(into_parts(x)) != x", format!("{:?}", loc), format!("{:?}", back)),
            Ok(Err(e)) => viol(l, "c17.parts", "the extension string of into_parts does not parse as an ExtensionsMap", loc.to_string(), e),
            Err(p) => viol(l, "c17.parts", "into_parts/from_parts panics", loc.to_string(), p),
        }
        if l.wants(0) {
            l.sample(0, b, || format!("into_parts -> {:?}", loc.clone().into_parts()));
        }
    } else {
        l.outcomes[1] += 1;
    }
    if let Out::Ok(id) = inputs::parse_langid(b) {
        l.counters[0] += 1;
        let (a, s, r, v) = id.clone().into_parts();
        let back = LanguageIdentifier::from_parts(a, s, r, &v);
        if back != id {
            viol(l, "c17.parts", "LanguageIdentifier::from_parts(into_parts(x)) != x", format!("{:?}", id), format!("{:?}", back));
        }
        let mut v2 = v.clone();
        v2.reverse();
        v2.extend(v.iter().cloned());
        let back2 = LanguageIdentifier::from_parts(a, s, r, &v2);
        if back2 != id {
            viol(l, "c17.parts_order", "from_parts with reversed+duplicated variants != x", format!("{:?}", id), format!("{:?}", back2));
        }
    }
}

pub fn run_c17(ctx: &Ctx) -> Report {
    let mut rep = Report::new();
    let plan = SweepPlan::standard(ctx);
    let all = sweep(ctx, &plan, &mut rep, &check_c17_input);
    rep.extra.insert("langid_accepted_inputs".into(), json!(all.counters[0]));
    if all.outcomes[0] == 0 || all.counters[0] == 0 {
        rep.engine_failures.push("vacuity guard: no accepted inputs".into());
    }
    run_parts(ctx, &mut rep);
    // integer forms: round trip on the C15 byte-string spaces, then injectivity on complete
    // domains of valid subtags
    {
        let coll = std::mem::take(&mut rep.collector);
        let mut valid = [0u64; 4];
        for sp in subtags::subtag_spaces(ctx) {
            let st = run_space(ctx, sp.as_ref(), 1 << 12, &|b, l| subtags::check_raw_roundtrip(b, l, &coll));
            rep.add_space(&format!("raw.{}", sp.name()), sp.describe(), &st);
            for i in 0..4 {
                valid[i] += st.local.counters[12 + i];
            }
        }
        rep.extra.insert("raw_round_trips".into(), json!({"languages": valid[0], "scripts": valid[1], "regions": valid[2], "variants": valid[3]}));
        if valid.iter().any(|v| *v == 0) {
            rep.engine_failures.push("vacuity guard: a subtag type never produced a valid value in the raw round-trip spaces".into());
        }
        // injectivity: number of distinct integers == number of distinct subtags
        let l0 = Local::new();
        let mut inj = serde_json::Map::new();
        let lower: Vec<u8> = (b'a'..=b'z').collect();
        let mut check_inj = |name: &str, strings: &mut dyn Iterator<Item = Vec<u8>>, f: &dyn Fn(&[u8]) -> Option<u64>| {
            let mut ints: Vec<u64> = vec![];
            let mut n = 0u64;
            for s in strings {
                if let Some(i) = f(&s) {
                    ints.push(i);
                    n += 1;
                }
            }
            ints.sort_unstable();
            ints.dedup();
            inj.insert(name.to_string(), json!({"distinct_subtags": n, "distinct_integers": ints.len()}));
            if ints.len() as u64 != n || n == 0 {
                coll.push(l0.order, Violation { sub: "c17.injective", class: format!("{}: distinct subtags share an integer form", name), case: Case::Text(format!("injectivity:{}", name)), expected: format!("{} distinct integers", n), observed: format!("{}", ints.len()) });
            }
            n
        };
        fn strings_over(alpha: &[u8], len: usize) -> impl Iterator<Item = Vec<u8>> + '_ {
            let total = (alpha.len() as u64).pow(len as u32);
            (0..total).map(move |mut k| {
                let mut v = vec![0u8; len];
                for i in (0..len).rev() {
                    v[i] = alpha[(k % alpha.len() as u64) as usize];
                    k /= alpha.len() as u64;
                }
                v
            })
        }
        let digits: Vec<u8> = (b'0'..=b'9').collect();
        let alnum: Vec<u8> = lower.iter().chain(digits.iter()).copied().collect();
        let mut total = 0u64;
        total += check_inj("languages of 2-3 letters (all)", &mut strings_over(&lower, 2).chain(strings_over(&lower, 3)),
            &|s| Language::from_bytes(s).ok().and_then(|v| Option::<u64>::from(v)));
        total += check_inj("languages of 5-8 letters over {a,m,z}", &mut (5..=8).flat_map(|n| strings_over(b"amz", n)),
            &|s| Language::from_bytes(s).ok().and_then(|v| Option::<u64>::from(v)));
        total += check_inj("scripts (all 26^4)", &mut strings_over(&lower, 4), &|s| Script::from_bytes(s).ok().map(|v| u32::from(v) as u64));
        total += check_inj("regions (all 26^2 + 10^3)", &mut strings_over(&lower, 2).chain(strings_over(&digits, 3)), &|s| Region::from_bytes(s).ok().map(|v| u32::from(v) as u64));
        total += check_inj("variants of 4 characters (all 10 x 36^3)", &mut strings_over(&alnum, 4), &|s| Variant::from_bytes(s).ok().map(|v| u64::from(v)));
        total += check_inj("variants of 5-8 characters over {a,z,0,9}", &mut (5..=8).flat_map(|n| strings_over(b"az09", n)), &|s| Variant::from_bytes(s).ok().map(|v| u64::from(v)));
        rep.extra.insert("injectivity".into(), serde_json::Value::Object(inj));
        rep.states += total;
        rep.transitions += total;
        rep.traces += total;
        rep.evaluations += total;
        rep.collector = coll;
    }
    let sum = run_harnesses(ctx, history::std_set(ctx), &["c17."], &mut rep, false);
    super::counts::run_count_histories(ctx, &mut rep, &["c17."]);
    fill_report(&mut rep, &sum, "C17: from_parts(into_parts(x)) == x on every reachable value");
    keep_only(&mut rep, &["c17."]);
    rep.rule = "from_parts(into_parts(x)) == x (Locale: extension string re-parsed with ExtensionsMap::from_str) on every accepted input of the E1/E2 spaces, every value of the from_parts product (where it must also equal parsing the joined string, for every order/duplication of up to 4 variants) and every state of the E3 harnesses; integer form -> from_raw_unchecked -> equal subtag with intact text on every valid subtag of the C15 byte-string spaces; injectivity of the integer form by sorting the integers of complete subtag domains. distinct_nontrivial = accepted tree inputs + product values + distinct E3 model values.".into();
    rep
}

// ------------------------------------------------------------------------------------------
// C12
// ------------------------------------------------------------------------------------------

type Val = (Locale, MLocale, String);

/// the case text of a value pair: replayable from the two strings only when parsing them gives
/// back exactly these representations; otherwise the structural text is recorded
fn pair_case(a: &Locale, b: &Locale) -> String {
    let same = |v: &Locale| Locale::from_str(&v.to_string()).map(|p| format!("{:?}", p) == format!("{:?}", v)).unwrap_or(false);
    if same(a) && same(b) {
        format!("vpair:{}|{}", a, b)
    } else {
        format!("vpair:unreplayable:{:?} | {:?}", a, b)
    }
}

fn c12viol(coll: &Collector, order: u64, sub: &'static str, class: &str, a: &Locale, b: &Locale, expected: String, observed: String) {
    coll.push(order, Violation { sub, class: class.to_string(), case: Case::Text(pair_case(a, b)), expected, observed });
}

/// model-level comparison of ids: (language, script, region, variants), absent first (C12)
fn id_cmp(a: &MLangId, b: &MLangId) -> Ord3 {
    a.cmp_key().cmp(&b.cmp_key())
}

pub fn check_value_pair(x: &Val, y: &Val, order: u64, coll: &Collector) {
    let (a, ma, sa) = x;
    let (b, mb, sb) = y;
    let eq = a == b;
    let seq = sa == sb;
    if eq != seq {
        c12viol(coll, order, "c12.eq_string", if eq { "equal values with different to_string()" } else { "different values with the same to_string()" }, a, b, format!("== is {}", seq), format!("== is {} ({:?} vs {:?})", eq, a, b));
    }
    let c = a.cmp(b);
    if eq {
        if hash_of(a) != hash_of(b) {
            c12viol(coll, order, "c12.hash", "equal values hash differently", a, b, "equal hashes".into(), "different".into());
        }
        if c != Ord3::Equal {
            c12viol(coll, order, "c12.cmp", "equal values do not compare Equal", a, b, "Equal".into(), format!("{:?}", c));
        }
    } else if c == Ord3::Equal {
        c12viol(coll, order, "c12.cmp", "unequal values compare Equal", a, b, "Less or Greater".into(), "Equal".into());
    }
    if a.partial_cmp(b) != Some(c) {
        c12viol(coll, order, "c12.cmp", "partial_cmp disagrees with cmp", a, b, format!("Some({:?})", c), format!("{:?}", a.partial_cmp(b)));
    }
    if b.cmp(a) != c.reverse() {
        c12viol(coll, order, "c12.antisymmetric", "cmp(y,x) is not the reverse of cmp(x,y)", a, b, format!("{:?}", c.reverse()), format!("{:?}", b.cmp(a)));
    }
    // language identifiers: the field-wise order the property states
    let want = id_cmp(&ma.id, &mb.id);
    let got = a.id.cmp(&b.id);
    let ida = || Locale::from(a.id.clone());
    let idb = || Locale::from(b.id.clone());
    if got != want {
        c12viol(coll, order, "c12.order", "LanguageIdentifier order differs from (language, script, region, variants) with absent first", &ida(), &idb(), format!("{:?}", want), format!("{:?}", got));
    }
    if (a.id == b.id) != (ma.id == mb.id) {
        c12viol(coll, order, "c12.eq_string", "LanguageIdentifier == differs from equality of canonical strings", &ida(), &idb(), format!("{}", ma.id == mb.id), format!("{}", a.id == b.id));
    }
    if want != Ord3::Equal && c != want {
        c12viol(coll, order, "c12.order", "Locale order does not follow the order of the ids", a, b, format!("{:?}", want), format!("{:?}", c));
    }
    // LanguageIdentifier == &str: true iff the string is the canonical text
    let ids_b = mb.id.canon();
    let e = a.id == ids_b.as_str();
    if e != (ma.id == mb.id) {
        c12viol(coll, order, "c12.eq_str", "LanguageIdentifier == &str differs from equality with the canonical text", &ida(), &idb(), format!("{}", ma.id == mb.id), format!("{}", e));
    }
}

pub fn replay_vpair(text: &str, coll: &Collector) {
    let Some(rest) = text.strip_prefix("vpair:") else { return };
    let mut it = rest.split('|');
    let (Some(a), Some(b)) = (it.next(), it.next()) else { return };
    if rest.starts_with("unreplayable:") {
        return;
    }
    let mk = |s: &str| -> Option<Val> {
        let loc = Locale::from_str(s).ok()?;
        let m = match rm::locale_zone(s.as_bytes()).0 {
            Zone::MustAccept(m) | Zone::Either(m) => m,
            _ => return None,
        };
        let st = loc.to_string();
        Some((loc, m, st))
    };
    if let (Some(x), Some(y)) = (mk(a), mk(b)) {
        check_value_pair(&x, &y, 0, coll);
        check_value_pair(&y, &x, 0, coll);
    }
}

/// per-value clauses of C12 on one input: == &str iff canonical text, clone ==/hash/cmp, and
/// agreement of ==/hash/cmp with the value parsed from the canonical string (parse route)
pub fn check_c12_input(b: &[u8], l: &mut Local, coll: &Collector) {
    let v = |l: &Local, sub: &'static str, class: &str, e: String, o: String| {
        coll.push(l.order, Violation { sub, class: class.to_string(), case: Case::Input(b.to_vec()), expected: e, observed: o });
    };
    if let Out::Ok(li) = inputs::parse_langid(b) {
        l.nontrivial += 1;
        let s = li.to_string();
        if !(li == s.as_str()) {
            v(l, "c12.eq_str", "LanguageIdentifier != its own canonical text", format!("true for {}", s), "false".into());
        }
        for other in crate::spaces::eq_probes(&s) {
            match guard_total(|| li == other.as_str()) {
                Ok(false) => {}
                Ok(true) => v(l, "c12.eq_str", "LanguageIdentifier == a text that is not its canonical text", "false".into(), format!("true for {:?}", other)),
                Err(p) => v(l, "c12.eq_str", "LanguageIdentifier == &str panics", "false".into(), format!("PANIC({}) for {:?}", p, other)),
            }
        }
        if let Out::Ok(again) = inputs::parse_langid(s.as_bytes()) {
            if again != li || hash_of(&again) != hash_of(&li) || again.cmp(&li) != Ord3::Equal {
                v(l, "c12.route", "the value parsed from an input and the value parsed from its canonical string differ in ==/hash/cmp", format!("{:?}", li), format!("{:?}", again));
            }
        }
        if l.wants(0) {
            l.sample(0, b, || format!("== {:?}", s));
        }
    }
    if let Out::Ok(loc) = inputs::parse_locale(b) {
        l.counters[0] += 1;
        let s = loc.to_string();
        let c = loc.clone();
        if c != loc || hash_of(&c) != hash_of(&loc) || c.cmp(&loc) != Ord3::Equal {
            v(l, "c12.reflexive", "a clone is not ==/hash-equal/Ordering::Equal", "equal".into(), "different".into());
        }
        if let Out::Ok(again) = inputs::parse_locale(s.as_bytes()) {
            if again != loc || hash_of(&again) != hash_of(&loc) || again.cmp(&loc) != Ord3::Equal {
                v(l, "c12.route", "the value parsed from an input and the value parsed from its canonical string differ in ==/hash/cmp", format!("{:?}", loc), format!("{:?}", again));
            }
        }
    }
}

pub fn run_c12(ctx: &Ctx) -> Report {
    let mut rep = Report::new();
    // per-value clauses on every accepted input of the standard input spaces (including the
    // long skeletons and the dictionary)
    {
        let plan = SweepPlan::standard(ctx);
        let all = sweep(ctx, &plan, &mut rep, &check_c12_input);
        rep.extra.insert("accepted_locale_inputs".into(), json!(all.counters[0]));
    }
    // route 1: mutation histories (also fills the route-independence table: c12.route)
    let sum = run_harnesses(ctx, history::std_set(ctx), &["c12."], &mut rep, true);
    super::counts::run_count_histories(ctx, &mut rep, &["c12."]);
    fill_report(&mut rep, &sum, "C12: route independence (the same model value reached with two representations is a violation) and per-state ==/hash/cmp/&str checks");
    // the value set R, keyed by the *structural* Debug text so that nothing is merged through
    // the library's own Eq/Hash
    let mut vals: BTreeMap<String, (Locale, MLocale, String)> = BTreeMap::new();
    let mut by_route = [0u64; 3];
    for st in &sum.values {
        let k = format!("{:?}", st.imp);
        if !vals.contains_key(&k) {
            by_route[0] += 1;
            let s = st.imp.to_string();
            vals.insert(k, (st.imp.clone(), st.model.clone(), s));
        }
    }
    // route 2: parsing (accepted inputs of the token tree to depth 3)
    {
        let full = sigma_full(ctx.seed);
        let tree = TokenTree::new("E1.full<=3", full, 1, 3, true);
        let found: std::sync::Mutex<Vec<(Locale, MLocale)>> = std::sync::Mutex::new(vec![]);
        let st = par_range(ctx, "E1.full<=3", tree.total(), 1 << 10, &|idx, l| {
            let mut b = vec![];
            tree.decode(idx, &mut b);
            if let Out::Ok(loc) = inputs::parse_locale(&b) {
                if let Zone::MustAccept(m) | Zone::Either(m) = rm::locale_zone(&b).0 {
                    l.nontrivial += 1;
                    found.lock().unwrap().push((loc, m));
                }
            }
        });
        rep.add_space("E1.full<=3 (parse route into the value set)", tree.describe(), &st);
        let mut f = found.into_inner().unwrap();
        f.sort_by(|a, b| a.1.cmp(&b.1));
        for (loc, m) in f {
            let k = format!("{:?}", loc);
            if !vals.contains_key(&k) {
                by_route[1] += 1;
                let s = loc.to_string();
                vals.insert(k, (loc, m, s));
            }
        }
    }
    // route 3: from_parts (a stride of the product; every id x a stride of lists x 8 extension shapes)
    {
        let d = parts_domain(false);
        for idx in 0..d.size() {
            let (_, li, _) = d.decode(idx);
            if li % 7 != 0 && li > 30 {
                continue;
            }
            let (_, loc, m, _) = d.build(idx);
            let k = format!("{:?}", loc);
            if !vals.contains_key(&k) {
                by_route[2] += 1;
                let s = loc.to_string();
                vals.insert(k, (loc, m, s));
            }
        }
    }
    let all: Vec<(Locale, MLocale, String)> = vals.into_values().collect();
    // two structurally different values with the same model = a second representation
    {
        let mut by_model: BTreeMap<&MLocale, usize> = BTreeMap::new();
        for (i, v) in all.iter().enumerate() {
            if let Some(j) = by_model.insert(&v.1, i) {
                rep.collector.push(i as u64, Violation { sub: "c12.route", class: "one logical value has two structural representations across routes (parse / from_parts / mutation)".into(),
                    case: Case::Text(format!("route:{:?} | {:?}", all[j].0, v.0)), expected: format!("{:?}", all[j].0), observed: format!("{:?}", v.0) });
            }
        }
    }
    // the pair set: a stratified subset (sorted by model, evenly spaced), all ordered pairs
    let cap = if ctx.quick() { 3000 } else { 12000 };
    let mut sorted: Vec<&(Locale, MLocale, String)> = all.iter().collect();
    sorted.sort_by(|a, b| a.1.cmp(&b.1));
    let subset: Vec<&(Locale, MLocale, String)> = if sorted.len() <= cap {
        sorted.clone()
    } else {
        (0..cap).map(|i| sorted[i * sorted.len() / cap]).collect()
    };
    let n = subset.len() as u64;
    let coll = std::mem::take(&mut rep.collector);
    let st = par_range(ctx, "E4.pairs", n * n, 1 << 14, &|idx, l| {
        let (i, j) = ((idx / n) as usize, (idx % n) as usize);
        check_value_pair(subset[i], subset[j], idx, &coll);
        if subset[i].0 == subset[j].0 {
            l.counters[0] += 1;
        }
        l.nontrivial += (i != j) as u64;
    });
    rep.distinct_nontrivial += st.local.nontrivial;
    rep.add_space("E4.pairs", json!({"values_in_R": all.len(), "from_mutation_histories": by_route[0], "from_parsing": by_route[1], "from_from_parts": by_route[2],
        "subset": n, "ordered_pairs": n * n, "equal_pairs": st.local.counters[0],
        "selection": "values sorted by model value, evenly spaced (deterministic); all ordered pairs of the subset"}), &st);
    // long lists (count ladder, DESIGN 0.8): for every list dimension and every n the ascending list
    // of n elements and the same list with its first / middle / last element replaced by an element
    // that is not in it -- all ordered pairs of these values, so that two long values differ in one
    // far position only, are a prefix of each other, or are equal (a comparison / hash that packs,
    // truncates or stops early beyond some count lives here)
    {
        let n_max = if ctx.quick() { 24 } else { 40 };
        let mut cv: BTreeMap<String, (Locale, MLocale, String)> = BTreeMap::new();
        let mut rejected = 0u64;
        for dim in super::counts::DIMS {
            for n in 0..=n_max {
                let base: Vec<usize> = (0..n).collect();
                let mut lists = vec![base.clone()];
                if n >= 1 {
                    for k in [0, n / 2, n - 1] {
                        let mut x = base.clone();
                        x[k] = n_max + 1 + k % 3;
                        lists.push(x);
                    }
                }
                for idx in lists {
                    let t = super::counts::text_of(dim, &idx);
                    match (inputs::parse_locale(t.as_bytes()), rm::locale_zone(t.as_bytes()).0) {
                        (Out::Ok(loc), Zone::MustAccept(m)) | (Out::Ok(loc), Zone::Either(m)) => {
                            let s = loc.to_string();
                            cv.insert(format!("{:?}", loc), (loc, m, s));
                        }
                        _ => rejected += 1,
                    }
                }
            }
        }
        let cvv: Vec<(Locale, MLocale, String)> = cv.into_values().collect();
        let cn = cvv.len() as u64;
        let stc = par_range(ctx, "E4.count_pairs", cn * cn, 1 << 12, &|idx, l| {
            let (i, j) = ((idx / cn) as usize, (idx % cn) as usize);
            check_value_pair(&cvv[i], &cvv[j], idx, &coll);
            l.nontrivial += (i != j) as u64;
        });
        rep.distinct_nontrivial += stc.local.nontrivial;
        rep.add_space("E4.count_pairs", json!({"values": cn, "ordered_pairs": cn * cn, "n_max": n_max, "texts_not_accepted_by_both_parser_and_oracle": rejected,
            "kind": "for every list dimension and every n <= n_max: the ascending list of n elements and the list with its first / middle / last element replaced; all ordered pairs"}), &stc);
        if cn < 100 {
            rep.engine_failures.push("vacuity guard: count-ladder value set of C12 is nearly empty".into());
        }
    }
    // distinct language identifiers of R: all ordered pairs (the field-wise order clause)
    let mut ids: BTreeMap<String, (Locale, MLocale, String)> = BTreeMap::new();
    for v in &all {
        let k = format!("{:?}", v.0.id);
        ids.entry(k).or_insert_with(|| {
            let loc = Locale::from(v.0.id.clone());
            let m = MLocale { id: v.1.id.clone(), ..Default::default() };
            let s = loc.to_string();
            (loc, m, s)
        });
    }
    let idv: Vec<(Locale, MLocale, String)> = ids.into_values().collect();
    let idn = idv.len().min(if ctx.quick() { 2500 } else { 8000 }) as u64;
    let st2 = par_range(ctx, "E4.id_pairs", idn * idn, 1 << 14, &|idx, l| {
        let (i, j) = ((idx / idn) as usize, (idx % idn) as usize);
        check_value_pair(&idv[i], &idv[j], idx, &coll);
        l.nontrivial += (i != j) as u64;
    });
    rep.add_space("E4.id_pairs", json!({"distinct_language_identifiers": idv.len(), "used": idn, "ordered_pairs": idn * idn}), &st2);
    // transitivity on all ordered triples of a 200-value subset (100 locales + 100 ids)
    let mut tri: Vec<&(Locale, MLocale, String)> = vec![];
    let tn = if ctx.quick() { 100 } else { 160 };
    for i in 0..tn.min(subset.len()) {
        tri.push(subset[i * subset.len() / tn.min(subset.len())]);
    }
    for i in 0..tn.min(idv.len()) {
        tri.push(&idv[i * idv.len() / tn.min(idv.len())]);
    }
    let t = tri.len() as u64;
    let st3 = par_range(ctx, "E4.triples_of_values", t * t * t, 1 << 14, &|idx, l| {
        let (i, j, k) = ((idx / (t * t)) as usize, ((idx / t) % t) as usize, (idx % t) as usize);
        let (x, y, z) = (&tri[i].0, &tri[j].0, &tri[k].0);
        if x < y && y < z && !(x < z) {
            coll.push(idx, Violation { sub: "c12.transitive", class: "ordering is not transitive".into(), case: Case::Text(format!("vtriple:{}|{}|{}", tri[i].2, tri[j].2, tri[k].2)), expected: "x<y and y<z imply x<z".into(), observed: format!("{:?}", x.cmp(z)) });
        }
        if x == y && y == z && x != z {
            coll.push(idx, Violation { sub: "c12.transitive", class: "equality is not transitive".into(), case: Case::Text(format!("vtriple:{}|{}|{}", tri[i].2, tri[j].2, tri[k].2)), expected: "x==y and y==z imply x==z".into(), observed: "x != z".into() });
        }
        l.nontrivial += (i != j && j != k) as u64;
    });
    rep.add_space("E4.triples_of_values", json!({"values": t, "ordered_triples": t * t * t}), &st3);
    // subtag types against &str: every subtag occurring in R against every subtag text of R and case variants
    {
        let mut texts: BTreeSet<String> = BTreeSet::new();
        for v in &all {
            let o = obs_langid(&v.0.id);
            texts.extend(o.lang.clone());
            texts.extend(o.script.clone());
            texts.extend(o.region.clone());
            texts.extend(o.variants.iter().cloned());
        }
        texts.insert("und".into());
        let mut probes: BTreeSet<String> = texts.clone();
        for t in &texts {
            probes.insert(t.to_ascii_uppercase());
            probes.insert(t.to_ascii_lowercase());
            probes.insert(format!("{}a", t));
            probes.insert(t[..t.len() - 1].to_string());
        }
        let mut n = 0u64;
        for t in &texts {
            macro_rules! eqs {
                ($ty:ident, $name:expr) => {
                    if let Ok(v) = $ty::from_str(t) {
                        let canon = v.to_string();
                        for p in &probes {
                            n += 1;
                            let got = v == p.as_str();
                            if got != (*p == canon) {
                                coll.push(n, Violation { sub: "c12.eq_str", class: format!("{} == &str differs from equality with its canonical text", $name), case: Case::Text(format!("subtag_eq:{}|{}", t, p)), expected: format!("{}", *p == canon), observed: format!("{}", got) });
                            }
                        }
                    }
                };
            }
            eqs!(Language, "Language");
            eqs!(Script, "Script");
            eqs!(Region, "Region");
            eqs!(Variant, "Variant");
        }
        rep.states += n;
        rep.transitions += n;
        rep.traces += n;
        rep.evaluations += n;
        rep.extra.insert("subtag_eq_str".into(), json!({"subtag_texts": texts.len(), "probe_strings": probes.len(), "comparisons": n}));
    }
    rep.collector = coll;
    keep_only(&mut rep, &["c12."]);
    if all.len() < 1000 || by_route.iter().any(|x| *x == 0) || st.local.counters[0] < n {
        rep.engine_failures.push(format!("vacuity guard: value set too small or a route contributed nothing ({} values, routes {:?})", all.len(), by_route));
    }
    rep.samples.push(json!({"pair": [subset[0].2, subset[subset.len() / 2].2], "cmp": format!("{:?}", subset[0].0.cmp(&subset[subset.len() / 2].0))}));
    #[cfg(feature = "likelysubtags")]
    super::conc::run_family(ctx, "shared", "c12.schedule", &mut rep);
    rep.rule = "Value set R = distinct (by structural Debug text) implementation values from every state of the five E3 harnesses, every accepted input of the full token tree to depth 3, and a stride of the from_parts product. Checked: route independence (one model value <-> one representation) over all of R and inside every E3 search; on all ordered pairs of a stratified subset: x==y <=> equal to_string, equal => equal hash and Ordering::Equal, cmp antisymmetric and agreeing with partial_cmp, id order == (language, script, region, variants) with absent first, Locale order follows the id order, LanguageIdentifier == &str <=> canonical text; transitivity on all ordered triples of a 200-value subset; the four subtag types == &str against every subtag text of R and its case/length variants. distinct_nontrivial counts ordered pairs/triples of distinct values plus distinct E3 model values.".into();
    rep.assumptions = vec!["DefaultHasher::new() (fixed keys) as the fixed hasher".into(), "values with a non-empty ExtensionsMap::other are outside (unsupported field)".into()];
    rep
}

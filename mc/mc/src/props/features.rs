//! C20 — optional features are purely additive (E5: enumeration of configurations).
//! The transcript program (transcript_main.rs) is built once per feature set of the façade
//! crates and run on the same enumerated corpus; the per-chunk digests must be identical in
//! every configuration; the character_direction column may differ only between configurations
//! with and without likely-subtags support, and only on script-less identifiers.

use crate::engine::*;
use serde_json::{json, Value};
use std::collections::{BTreeMap, BTreeSet};

const MAIN_RS: &str = include_str!("transcript_main.rs");

const FEATURES: [&str; 5] = ["langid_serde", "langid_macros", "langid_likely", "locale_macros", "locale_likely"];

fn work_dir() -> String {
    format!("{}/work/c20", crate::verif_dir())
}
fn target_dir() -> String {
    std::env::var("VERIF_C20_TARGET").unwrap_or_else(|_| format!("{}/work/target-c20", crate::verif_dir()))
}

fn write_package(ctx: &Ctx) -> Result<String, String> {
    let dir = work_dir();
    std::fs::create_dir_all(format!("{}/src", dir)).map_err(|e| e.to_string())?;
    std::fs::create_dir_all(format!("{}/bin", dir)).map_err(|e| e.to_string())?;
    let toml = format!(
        r#"[package]
name = "transcript"
version = "0.0.0"
edition = "2021"

[dependencies]
unic-langid = {{ path = "{r}/unic-langid" }}
unic-locale = {{ path = "{r}/unic-locale" }}
unic-langid-impl = {{ path = "{r}/unic-langid-impl" }}

[features]
langid_serde = ["unic-langid/serde"]
langid_macros = ["unic-langid/macros"]
langid_likely = ["unic-langid/likelysubtags"]
locale_macros = ["unic-locale/macros"]
locale_likely = ["unic-locale/likelysubtags"]
impl_binary = ["unic-langid-impl/binary"]

[workspace]

[profile.release]
opt-level = 2
debug = false
codegen-units = 16
incremental = false
"#,
        r = ctx.repo
    );
    let old = std::fs::read_to_string(format!("{}/Cargo.toml", dir)).unwrap_or_default();
    if old != toml {
        std::fs::write(format!("{}/Cargo.toml", dir), toml).map_err(|e| e.to_string())?;
    }
    let oldm = std::fs::read_to_string(format!("{}/src/main.rs", dir)).unwrap_or_default();
    if oldm != MAIN_RS {
        std::fs::write(format!("{}/src/main.rs", dir), MAIN_RS).map_err(|e| e.to_string())?;
    }
    if !std::path::Path::new(&format!("{}/Cargo.lock", dir)).exists() {
        // seed the lock file (offline resolution): the repository's own, else the committed copy
        let mc_src = std::env::var("VERIF_MC_SRC").unwrap_or_else(|_| "/verif/mc".to_string());
        let seeds = [format!("{}/Cargo.lock", ctx.repo), format!("{}/locks/c20.lock", mc_src)];
        let seed = seeds.iter().find(|p| std::path::Path::new(p).exists()).ok_or_else(|| "no Cargo.lock to seed the generated package from".to_string())?;
        std::fs::copy(seed, format!("{}/Cargo.lock", dir)).map_err(|e| e.to_string())?;
    }
    Ok(dir)
}

fn config_name(fs: &[&str]) -> String {
    if fs.is_empty() {
        "none".to_string()
    } else {
        fs.join("+")
    }
}

fn build(dir: &str, fs: &[&str]) -> Result<String, String> {
    let mut cmd = std::process::Command::new("cargo");
    cmd.args(["build", "--release", "--offline", "-q"]);
    if !fs.is_empty() {
        cmd.arg("--features").arg(fs.join(","));
    }
    let out = cmd
        .current_dir(dir)
        .env("CARGO_TARGET_DIR", target_dir())
        .env("CARGO_NET_OFFLINE", "true")
        .env("CARGO_TERM_COLOR", "never")
        .env_remove("RUSTFLAGS")
        .output()
        .map_err(|e| format!("cannot run cargo: {}", e))?;
    if !out.status.success() {
        return Err(format!("configuration {} does not build: {}", config_name(fs), String::from_utf8_lossy(&out.stderr).chars().take(1500).collect::<String>()));
    }
    let exe = format!("{}/bin/{}", dir, config_name(fs));
    std::fs::copy(format!("{}/release/transcript", target_dir()), &exe).map_err(|e| e.to_string())?;
    Ok(exe)
}

fn corpus_path() -> String {
    format!("{}/work/c20/corpus.txt", crate::verif_dir())
}

/// the input list of the transcript's "corpus" section: the extra spaces of the input sweeps
/// (dictionary, order hazards, length ladder, multi-byte text, two-call menu) and every
/// likelySubtags key/value and layout locale, hex-encoded, one per line
fn write_corpus(ctx: &Ctx) -> Result<u64, String> {
    use crate::spaces::*;
    let mut set: BTreeSet<Vec<u8>> = BTreeSet::new();
    let mut words = dictionary_words();
    let lk = super::universe::load_likely(&ctx.repo);
    words.extend(lk.scripts.iter().filter(|s| !s.is_empty()).cloned());
    words.extend(lk.regions.iter().filter(|s| !s.is_empty()).cloned());
    words.extend(lk.langs.iter().filter(|s| !s.is_empty()).step_by(if ctx.quick() { 16 } else { 2 }).cloned());
    for w in ["Zzzz", "Zyyy", "Zxxx", "Qaaa", "ZZ", "AA", "QO", "XK", "001", "419", "root", "und", "mul", "zxx"] {
        words.push(w.to_string());
    }
    words.sort();
    words.dedup();
    set.extend(dictionary_inputs(&words));
    set.extend(order_inputs());
    set.extend(length_ladder(if ctx.quick() { 120 } else { 300 }, true));
    set.extend(utf8_strings(if ctx.quick() { 3 } else { 4 }));
    set.extend(history_menu());
    // count ladder: every list position at every n (ascending and descending order)
    {
        use super::counts::{input_text, Spec, DIMS};
        let n_max = if ctx.quick() { 40 } else { 72 };
        for dim in DIMS {
            for n in 0..=n_max {
                for kind in [0u8, 1] {
                    set.insert(input_text(dim, &Spec { n, kind, a: 0, b: 0 }).into_bytes());
                }
            }
        }
    }
    if let Ok(txt) = std::fs::read_to_string(dir_ids_path()) {
        for l in txt.lines() {
            set.insert(l.as_bytes().to_vec());
            set.insert(l.to_ascii_uppercase().replace('-', "_").into_bytes());
            set.insert(format!("{}-u-ca-gregory-t-{}-x-a", l, l.to_ascii_lowercase()).into_bytes());
        }
    }
    let _ = std::fs::create_dir_all(format!("{}/work/c20", crate::verif_dir()));
    let txt: String = set.iter().filter(|b| !b.is_empty()).map(|b| hex(b)).collect::<Vec<_>>().join("\n");
    std::fs::write(corpus_path(), txt).map_err(|e| e.to_string())?;
    Ok(set.len() as u64)
}

fn dir_ids_path() -> String {
    format!("{}/work/c20/dir_ids.txt", crate::verif_dir())
}

/// every key of likelySubtags.json and every CLDR layout locale, one per line (the direction
/// column of the transcript is printed for each of them in every configuration)
fn write_dir_ids(repo: &str) -> Result<u64, String> {
    let mut ids: BTreeSet<String> = BTreeSet::new();
    let txt = std::fs::read_to_string(format!("{}/unic-langid-impl/data/likelySubtags.json", repo)).map_err(|e| e.to_string())?;
    let v: serde_json::Value = serde_json::from_str(&txt).map_err(|e| e.to_string())?;
    if let Some(m) = v["supplemental"]["likelySubtags"].as_object() {
        for (k, val) in m {
            ids.insert(k.clone());
            if let Some(x) = val.as_str() {
                ids.insert(x.to_string());
            }
        }
    }
    if let Ok(rd) = std::fs::read_dir(format!("{}/unic-langid-impl/data/cldr-misc-full/main", repo)) {
        for e in rd.flatten() {
            ids.insert(e.file_name().to_string_lossy().to_string());
        }
    }
    // per language of the data: the bare language and the language with an unlisted script, a
    // left-to-right and a right-to-left script, and a region (the direction of each must not
    // depend on the feature set beyond the documented refinement -- nor on what was asked before)
    let langs: BTreeSet<String> = ids.iter().filter_map(|i| i.split(|c| c == '-' || c == '_').next().map(|s| s.to_string())).filter(|l| l != "und" && l.len() <= 3).collect();
    let rich: BTreeSet<String> = ids.iter().filter(|i| i.contains('-') || i.contains('_')).filter_map(|i| i.split(|c| c == '-' || c == '_').next().map(|s| s.to_string())).collect();
    for l in &langs {
        if rich.contains(l) {
            for suffix in ["", "-Qaaa", "-Grek", "-Latn", "-Arab", "-Qaaa-ZZ", "-001"] {
                ids.insert(format!("{}{}", l, suffix));
            }
        }
    }
    let _ = std::fs::create_dir_all(format!("{}/work/c20", crate::verif_dir()));
    std::fs::write(dir_ids_path(), ids.iter().cloned().collect::<Vec<_>>().join("\n")).map_err(|e| e.to_string())?;
    Ok(ids.len() as u64)
}

struct Transcript {
    /// (section, chunk) -> (lines, digest)
    chunks: BTreeMap<(String, u64), (u64, String)>,
    /// identifier -> direction
    dirs: BTreeMap<String, String>,
    done: bool,
}

fn run_transcript(exe: &str, depth: u32) -> Result<Transcript, String> {
    let out = std::process::Command::new(exe).env("C20_DEPTH", depth.to_string()).env("C20_DIR_IDS", dir_ids_path()).env("C20_CORPUS", corpus_path()).output().map_err(|e| format!("cannot run {}: {}", exe, e))?;
    if !out.status.success() {
        return Err(format!("{} exited with {:?}: {}", exe, out.status, String::from_utf8_lossy(&out.stderr).chars().take(500).collect::<String>()));
    }
    let mut t = Transcript { chunks: BTreeMap::new(), dirs: BTreeMap::new(), done: false };
    for l in String::from_utf8_lossy(&out.stdout).lines() {
        let p: Vec<&str> = l.split(' ').collect();
        match p.first() {
            Some(&"H") if p.len() == 5 => {
                t.chunks.insert((p[1].to_string(), p[2].parse().unwrap_or(0)), (p[3].parse().unwrap_or(0), p[4].to_string()));
            }
            Some(&"D") if p.len() == 3 => {
                t.dirs.insert(p[1].to_string(), p[2].to_string());
            }
            Some(&"DONE") => t.done = true,
            _ => {}
        }
    }
    Ok(t)
}

/// Direction of every listed identifier (every likelySubtags key/value and CLDR layout locale) as
/// the FACADE crates answer it when built with exactly the features `fs` -- the configuration a
/// user of `unic-locale` / `unic-langid` gets, with Cargo's feature forwarding between the four
/// crates in the loop (C14 reads it for the configurations that request likely-subtags support
/// through one facade only).
pub fn facade_directions(ctx: &Ctx, fs: &[&str]) -> Result<BTreeMap<String, String>, String> {
    let dir = write_package(ctx)?;
    write_dir_ids(&ctx.repo)?;
    let exe = build(&dir, fs)?;
    let t = run_transcript(&exe, 1)?;
    if !t.done {
        return Err(format!("configuration {}: transcript incomplete", config_name(fs)));
    }
    Ok(t.dirs)
}

fn chunk_lines(exe: &str, depth: u32, section: &str, chunk: u64) -> Vec<String> {
    std::process::Command::new(exe)
        .args(["--chunk", section, &chunk.to_string()])
        .env("C20_DEPTH", depth.to_string())
        .env("C20_DIR_IDS", dir_ids_path())
        .env("C20_CORPUS", corpus_path())
        .output()
        .map(|o| String::from_utf8_lossy(&o.stdout).lines().map(|s| s.to_string()).collect())
        .unwrap_or_default()
}

pub fn run_c20(ctx: &Ctx) -> Report {
    let mut rep = Report::new();
    let dir = match write_package(ctx) {
        Ok(d) => d,
        Err(e) => {
            rep.engine_failures.push(format!("cannot write the transcript package: {}", e));
            return rep;
        }
    };
    let depth = if ctx.quick() { 3 } else { 4 };
    match write_dir_ids(&ctx.repo) {
        Ok(n) => {
            rep.extra.insert("direction_identifiers_from_cldr_data".into(), json!(n));
        }
        Err(e) => rep.engine_failures.push(format!("cannot write the direction identifier list: {}", e)),
    }
    match write_corpus(ctx) {
        Ok(n) => {
            rep.extra.insert("corpus_inputs".into(), json!(n));
        }
        Err(e) => rep.engine_failures.push(format!("cannot write the corpus: {}", e)),
    }
    // feature sets
    let mut sets: Vec<Vec<&str>> = vec![];
    if ctx.quick() {
        sets.push(vec![]);
        sets.push(vec!["langid_likely", "locale_likely"]);
        sets.push(vec!["langid_serde"]);
        sets.push(vec!["langid_macros"]);
        sets.push(vec!["locale_macros"]);
        sets.push(vec!["locale_likely"]);
        sets.push(FEATURES.to_vec());
    } else {
        for mask in 0..32u32 {
            sets.push(FEATURES.iter().enumerate().filter(|(i, _)| (mask >> i) & 1 == 1).map(|(_, f)| *f).collect());
        }
        sets.push(vec!["impl_binary"]);
        let mut all = FEATURES.to_vec();
        all.push("impl_binary");
        sets.push(all);
    }
    // builds are sequential (one target directory, shared dependency artefacts); runs in parallel
    let t0 = std::time::Instant::now();
    let mut exes: Vec<(String, Vec<&str>, String)> = vec![];
    for fs in &sets {
        match build(&dir, fs) {
            Ok(exe) => exes.push((config_name(fs), fs.clone(), exe)),
            Err(e) => rep.engine_failures.push(e),
        }
    }
    let build_wall = t0.elapsed().as_secs_f64();
    let results: Vec<Result<Transcript, String>> = std::thread::scope(|s| {
        let hs: Vec<_> = exes.iter().map(|(_, _, exe)| s.spawn(move || run_transcript(exe, depth))).collect();
        hs.into_iter().map(|h| h.join().unwrap_or_else(|_| Err("transcript thread panicked".into()))).collect()
    });
    let mut ts: Vec<(String, bool, Transcript)> = vec![];
    for ((name, fs, _), r) in exes.iter().zip(results) {
        match r {
            Ok(t) if t.done && !t.chunks.is_empty() => ts.push((name.clone(), fs.iter().any(|f| f.ends_with("_likely")), t)),
            Ok(_) => rep.engine_failures.push(format!("configuration {}: transcript incomplete", name)),
            Err(e) => rep.engine_failures.push(e),
        }
    }
    if ts.len() < 2 {
        rep.engine_failures.push("fewer than two configurations produced a transcript".into());
        return rep;
    }
    let (base_name, _, base) = (&ts[0].0, ts[0].1, &ts[0].2);
    let base_exe = &exes[0].2;
    let lines_per_config: u64 = base.chunks.values().map(|c| c.0).sum();
    let mut compared = 0u64;
    for (name, likely, t) in ts.iter().skip(1) {
        // every chunk digest identical
        let keys: BTreeSet<&(String, u64)> = base.chunks.keys().chain(t.chunks.keys()).collect();
        let mut reported = 0;
        for k in keys {
            compared += 1;
            let a = base.chunks.get(k);
            let b = t.chunks.get(k);
            if a != b && reported < 3 {
                reported += 1;
                // locate the first differing line
                let exe = &exes.iter().find(|e| e.0 == *name).unwrap().2;
                let la = chunk_lines(base_exe, depth, &k.0, k.1);
                let lb = chunk_lines(exe, depth, &k.0, k.1);
                let pos = la.iter().zip(lb.iter()).position(|(x, y)| x != y).unwrap_or(la.len().min(lb.len()));
                let trunc = |s: Option<&String>| s.map(|x| x.chars().take(300).collect::<String>()).unwrap_or_else(|| "<no line>".into());
                rep.collector.push(compared, Violation {
                    sub: "c20.transcript",
                    class: format!("section '{}' differs between feature sets", k.0),
                    case: Case::Text(format!("config:{} vs {} section {} chunk {} line {}", base_name, name, k.0, k.1, pos)),
                    expected: format!("[{}] {}", base_name, trunc(la.get(pos))),
                    observed: format!("[{}] {}", name, trunc(lb.get(pos))),
                });
            }
        }
        // direction column
        let _ = likely;
    }
    // direction: identical within the same likely-subtags setting; across settings only
    // script-less identifiers may differ
    let mut dir_cmp = 0u64;
    let mut dir_diffs_allowed = 0u64;
    for i in 0..ts.len() {
        for j in (i + 1)..ts.len() {
            let (na, la, a) = (&ts[i].0, ts[i].1, &ts[i].2);
            let (nb, lb, b) = (&ts[j].0, ts[j].1, &ts[j].2);
            let ids: BTreeSet<&String> = a.dirs.keys().chain(b.dirs.keys()).collect();
            for id in ids {
                dir_cmp += 1;
                let (da, db) = (a.dirs.get(id), b.dirs.get(id));
                if da == db {
                    continue;
                }
                // a pair history `x>y` reports the direction of y
                let subject = id.rsplit('>').next().unwrap_or(id.as_str());
                let has_script = subject.split('-').skip(1).take(1).any(|t| t.len() == 4 && t.bytes().all(|c| c.is_ascii_alphabetic()));
                // the refinement: WITHOUT likely-subtags a script-less identifier of a language
                // that is listed right-to-left answers RTL; WITH them the likely script may turn
                // that into LTR (C14, last clause: only for languages CLDR lists with more than
                // one direction).  Nothing else may differ: not LTR -> RTL, nothing with TTB.
                let (without, with) = if la { (db, da) } else { (da, db) };
                if la != lb && !has_script && without.map(|s| s.as_str()) == Some("RTL") && with.map(|s| s.as_str()) == Some("LTR") {
                    dir_diffs_allowed += 1;
                    continue;
                }
                rep.collector.push(1_000_000 + dir_cmp, Violation {
                    sub: "c20.direction",
                    class: if la == lb { "character_direction differs between feature sets with the same likely-subtags setting".to_string() } else if has_script { "character_direction differs for an identifier that has a script".to_string() } else { "character_direction differs on a script-less identifier other than RTL (without likely-subtags) -> LTR (with)".to_string() },
                    case: Case::Text(format!("config:{} vs {} id {}", na, nb, id)),
                    expected: format!("[{}] {:?}", na, da),
                    observed: format!("[{}] {:?}", nb, db),
                });
            }
        }
    }
    let n = ts.len() as u64;
    rep.states = n * lines_per_config;
    rep.transitions = n * lines_per_config;
    rep.traces = n * lines_per_config;
    rep.evaluations = n * lines_per_config;
    rep.distinct_nontrivial = lines_per_config;
    rep.extra.insert("programs".into(), json!(n));
    rep.extra.insert("configurations".into(), json!(ts.iter().map(|t| t.0.clone()).collect::<Vec<_>>()));
    rep.extra.insert("transcript_lines_per_configuration".into(), json!(lines_per_config));
    rep.extra.insert("chunks_per_configuration".into(), json!(base.chunks.len()));
    rep.extra.insert("sections".into(), json!(base.chunks.keys().map(|k| k.0.clone()).collect::<BTreeSet<_>>()));
    rep.extra.insert("chunk_digest_comparisons".into(), json!(compared));
    rep.extra.insert("direction_identifiers".into(), json!(base.dirs.len()));
    rep.extra.insert("direction_comparisons".into(), json!(dir_cmp));
    rep.extra.insert("direction_differences_on_scriptless_identifiers_between_likely_settings".into(), json!(dir_diffs_allowed));
    rep.extra.insert("build_wall_s".into(), json!((build_wall * 10.0).round() / 10.0));
    rep.extra.insert("token_depth".into(), json!(depth));
    rep.samples = vec![
        json!({"configuration": ts[0].0, "first_chunk": base.chunks.iter().next().map(|(k, v)| format!("{} {} lines={} digest={}", k.0, k.1, v.0, v.1))}),
        json!({"configuration": ts[ts.len() - 1].0, "first_chunk": ts[ts.len() - 1].2.chunks.iter().next().map(|(k, v)| format!("{} {} lines={} digest={}", k.0, k.1, v.0, v.1))}),
        json!({"direction_sample": base.dirs.iter().filter(|(_, d)| d.as_str() != "LTR").take(3).collect::<Vec<_>>()}),
    ];
    if dir_diffs_allowed == 0 {
        rep.engine_failures.push("vacuity guard: the documented refinement of character_direction was never observed (no script-less identifier differs between likely-subtags settings)".into());
    }
    rep.rule = "E5: one transcript program built per feature set (quick: none, likelysubtags, serde, langid macros, locale macros, locale likelysubtags only, all; thorough: all 32 combinations of the five façade features plus unic-langid-impl/binary). In every configuration the same corpus runs: every token sequence over the 25-token core alphabet to the stated depth through both parsers, both canonicalize functions and (depth <= 2) the subtag and ExtensionsMap parsers; the sorted order and &str equality of all accepted values; matches() on all ordered pairs of a 384-identifier domain x 4 flag pairs and on Locale pairs with extensions; every sequence of up to three of 24 mutator calls from default() with results, Debug text, getters and re-parse. One FNV-1a digest per 1000 transcript lines must be identical across configurations (a difference is located by re-running the two binaries on that chunk). The character_direction column must be identical between configurations with the same likely-subtags setting and may differ across settings only on script-less identifiers. states = transcript lines x configurations; distinct_nontrivial = transcript lines of one configuration.".into();
    rep.assumptions = vec!["FNV-1a 64-bit digests per 1000-line chunk (a collision could hide a difference)".into(), "feature unification: enabling either façade's likelysubtags feature enables it in the shared unic-langid-impl".into()];
    let _: Option<Value> = None;
    rep
}

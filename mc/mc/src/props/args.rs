//! E4 — textual arguments of the extension getters/setters (C01(b), C10): every byte string of
//! a complete space is handed to every function that takes a key, value, attribute or tag, on
//! several receiver states.  C01 asks only that the call returns; C10 additionally that
//! validation and normalisation agree with the model and that an Err leaves the receiver
//! unchanged.

use super::history::St;
use crate::engine::*;
use crate::obs::*;
use crate::spaces::*;
use refmodel::{self as rm, MLocale};
use serde_json::json;
use unic_locale_impl::Locale;

#[derive(Clone, Debug, PartialEq, Eq)]
pub enum R {
    Unit,
    Bool(bool),
    List(Vec<String>),
    Err,
}

#[derive(Clone, Copy, Debug, PartialEq, Eq)]
pub enum F {
    Keyword,
    SetKeywordKey,
    SetKeywordVal,
    SetKeywordVal2,
    RemoveKeyword,
    HasAttr,
    SetAttr,
    RemoveAttr,
    Tfield,
    SetTfieldKey,
    SetTfieldVal,
    RemoveTfield,
    HasTag,
    AddTag,
    RemoveTag,
}

pub const FNS: [F; 15] = [
    F::Keyword, F::SetKeywordKey, F::SetKeywordVal, F::SetKeywordVal2, F::RemoveKeyword, F::HasAttr, F::SetAttr, F::RemoveAttr,
    F::Tfield, F::SetTfieldKey, F::SetTfieldVal, F::RemoveTfield, F::HasTag, F::AddTag, F::RemoveTag,
];

impl F {
    pub fn name(self) -> &'static str {
        match self {
            F::Keyword => "keyword(b)",
            F::SetKeywordKey => "set_keyword(b,[foo])",
            F::SetKeywordVal => "set_keyword(ca,[b])",
            F::SetKeywordVal2 => "set_keyword(nu,[foo,b,true])",
            F::RemoveKeyword => "remove_keyword(b)",
            F::HasAttr => "has_attribute(b)",
            F::SetAttr => "set_attribute(b)",
            F::RemoveAttr => "remove_attribute(b)",
            F::Tfield => "tfield(b)",
            F::SetTfieldKey => "set_tfield(b,[foo])",
            F::SetTfieldVal => "set_tfield(h0,[bar,b])",
            F::RemoveTfield => "remove_tfield(b)",
            F::HasTag => "has_tag(b)",
            F::AddTag => "add_tag(b)",
            F::RemoveTag => "remove_tag(b)",
        }
    }
    fn mutates(self) -> bool {
        !matches!(self, F::Keyword | F::HasAttr | F::Tfield | F::HasTag)
    }
}

fn lst<'a, E>(x: Result<impl Iterator<Item = &'a str>, E>) -> R {
    match x {
        Ok(it) => R::List(it.map(|s| s.to_string()).collect()),
        Err(_) => R::Err,
    }
}
fn unit<E>(x: Result<(), E>) -> R {
    if x.is_ok() {
        R::Unit
    } else {
        R::Err
    }
}
fn boolr<E>(x: Result<bool, E>) -> R {
    match x {
        Ok(b) => R::Bool(b),
        Err(_) => R::Err,
    }
}

/// the real call; mutators work on a clone that is returned
fn call_imp(f: F, imp: &Locale, b: &[u8]) -> (R, Option<Locale>) {
    let foo: &[u8] = b"foo";
    let bar: &[u8] = b"bar";
    let tru: &[u8] = b"true";
    if !f.mutates() {
        let r = match f {
            F::Keyword => lst(imp.extensions.unicode.keyword(b)),
            F::HasAttr => boolr(imp.extensions.unicode.has_attribute(b)),
            F::Tfield => lst(imp.extensions.transform.tfield(b)),
            F::HasTag => boolr(imp.extensions.private.has_tag(b)),
            _ => unreachable!(),
        };
        return (r, None);
    }
    let mut c = imp.clone();
    let u = &mut c.extensions.unicode;
    let r = match f {
        F::SetKeywordKey => unit(u.set_keyword(b, &[foo])),
        F::SetKeywordVal => unit(u.set_keyword(&b"ca"[..], &[b])),
        F::SetKeywordVal2 => unit(u.set_keyword(&b"nu"[..], &[foo, b, tru])),
        F::RemoveKeyword => boolr(u.remove_keyword(b)),
        F::SetAttr => unit(u.set_attribute(b)),
        F::RemoveAttr => boolr(u.remove_attribute(b)),
        F::SetTfieldKey => unit(c.extensions.transform.set_tfield(b, &[foo])),
        F::SetTfieldVal => unit(c.extensions.transform.set_tfield(&b"h0"[..], &[bar, b])),
        F::RemoveTfield => boolr(c.extensions.transform.remove_tfield(b)),
        F::AddTag => unit(c.extensions.private.add_tag(b)),
        F::RemoveTag => boolr(c.extensions.private.remove_tag(b)),
        _ => unreachable!(),
    };
    (r, Some(c))
}

fn call_model(f: F, m: &MLocale, b: &[u8]) -> (R, Option<MLocale>) {
    let foo: &[u8] = b"foo";
    let bar: &[u8] = b"bar";
    let tru: &[u8] = b"true";
    let ru = |x: Result<(), ()>| if x.is_ok() { R::Unit } else { R::Err };
    let rb = |x: Result<bool, ()>| match x {
        Ok(v) => R::Bool(v),
        Err(()) => R::Err,
    };
    let rl = |x: Result<Vec<String>, ()>| match x {
        Ok(v) => R::List(v),
        Err(()) => R::Err,
    };
    match f {
        F::Keyword => return (rl(m.keyword(b)), None),
        F::HasAttr => return (rb(m.has_attribute(b)), None),
        F::Tfield => return (rl(m.tfield(b)), None),
        F::HasTag => return (rb(m.has_tag(b)), None),
        _ => {}
    }
    let mut c = m.clone();
    let r = match f {
        F::SetKeywordKey => ru(c.set_keyword(b, &[foo])),
        F::SetKeywordVal => ru(c.set_keyword(b"ca", &[b])),
        F::SetKeywordVal2 => ru(c.set_keyword(b"nu", &[foo, b, tru])),
        F::RemoveKeyword => rb(c.remove_keyword(b)),
        F::SetAttr => ru(c.set_attribute(b)),
        F::RemoveAttr => rb(c.remove_attribute(b)),
        F::SetTfieldKey => ru(c.set_tfield(b, &[foo])),
        F::SetTfieldVal => ru(c.set_tfield(b"h0", &[bar, b])),
        F::RemoveTfield => rb(c.remove_tfield(b)),
        F::AddTag => ru(c.add_tag(b)),
        F::RemoveTag => rb(c.remove_tag(b)),
        _ => unreachable!(),
    };
    (r, Some(c))
}

pub fn receivers() -> Vec<(&'static str, St)> {
    ["und", "und-t-h0-hybrid-u-abc-ca-foo-x-a", "en-t-de-h0-hybrid-k1-bar-u-abc-zzz9-ca-foo-nu-thai-x-a-zz"]
        .iter()
        .filter_map(|s| super::history::try_parse_state(s).ok().map(|st| (*s, st)))
        .collect()
}

fn aviol(coll: &Collector, l: &Local, sub: &'static str, class: String, ri: usize, f: F, b: &[u8], expected: String, observed: String) {
    let fi = FNS.iter().position(|x| *x == f).unwrap();
    coll.push(l.order, Violation { sub, class, case: Case::Text(format!("arg:{}:{}:{}", ri, fi, hex(b))), expected, observed });
}

/// one argument string on one receiver through all fifteen functions
pub fn check_arg(ri: usize, st: &St, b: &[u8], full: bool, l: &mut Local, coll: &Collector) {
    for f in FNS {
        l.counters[0] += 1;
        let got = guard_total(|| call_imp(f, &st.imp, b));
        let (r, after) = match got {
            Ok(x) => x,
            Err(p) => {
                aviol(coll, l, "c01.panic", format!("{} panics: {}", f.name(), p), ri, f, b, "Ok or Err".into(), format!("PANIC({})", p));
                if full {
                    aviol(coll, l, "c10.panic", format!("{} panics: {}", f.name(), p), ri, f, b, "Ok or Err".into(), format!("PANIC({})", p));
                }
                continue;
            }
        };
        match r {
            R::Err => l.counters[1] += 1,
            _ => l.counters[2] += 1,
        }
        if !full {
            continue;
        }
        let (mr, mafter) = call_model(f, &st.model, b);
        if mr != r {
            aviol(coll, l, "c10.arg_result", format!("{}: result differs from the model ({})", f.name(), if mr == R::Err { "model rejects the argument" } else { "model accepts the argument" }),
                  ri, f, b, format!("{:?}", mr), format!("{:?}", r));
        }
        if let Some(after) = after {
            if r == R::Err {
                if after != st.imp {
                    aviol(coll, l, "c10.arg_unchanged", format!("{}: Err but the receiver changed", f.name()), ri, f, b, st.imp.to_string(), after.to_string());
                }
            } else if let Some(ma) = mafter {
                if mr != R::Err {
                    let o = obs_locale(&after);
                    let e = exp_locale(&ma);
                    if let Some(field) = diff_locale(&o, &e) {
                        aviol(coll, l, "c10.arg_value", format!("{}: accepted argument not normalised like the model ({})", f.name(), field), ri, f, b, show_olocale(&e), show_olocale(&o));
                    } else if after.to_string() != ma.canon() {
                        aviol(coll, l, "c10.arg_value", format!("{}: to_string after the call differs from the model", f.name()), ri, f, b, ma.canon(), after.to_string());
                    }
                    if mr != R::Err && r != R::Err {
                        l.nontrivial += 1;
                    }
                }
            }
        }
    }
}

pub fn replay(text: &str, coll: &Collector) {
    let Some(rest) = text.strip_prefix("arg:") else { return };
    let p: Vec<&str> = rest.split(':').collect();
    if p.len() != 3 {
        return;
    }
    let (Ok(ri), Ok(fi), Some(b)) = (p[0].parse::<usize>(), p[1].parse::<usize>(), unhex(p[2])) else { return };
    let rs = receivers();
    if ri >= rs.len() || fi >= FNS.len() {
        return;
    }
    // run all functions (cheap) and keep what the caller filters by sub
    let mut l = Local::new();
    check_arg(ri, &rs[ri].1, &b, true, &mut l, coll);
}

pub const SMALL_BYTES: [u8; 6] = [b'a', b'Z', b'0', b'-', 0, 0xff];

/// Runs the argument spaces and adds them to the report.  `full` = C10 mode (model comparison).
pub fn run_arg_sweep(ctx: &Ctx, rep: &mut Report, full: bool) {
    let coll = std::mem::take(&mut rep.collector);
    let rs = receivers();
    let mut spaces: Vec<(Box<dyn Space>, usize)> = vec![
        (Box::new(ByteStrings::new("E4.args.all_bytes<=2", ByteStrings::all_bytes(), 0, 2)), 3),
        (Box::new(ByteStrings::new("E4.args.boundary24.len3-4", BOUNDARY_BYTES.to_vec(), 3, 4)), 3),
        (Box::new(ByteStrings::new("E4.args.small6.len5-9", SMALL_BYTES.to_vec(), 5, 9)), 1),
    ];
    if !ctx.quick() {
        spaces.push((Box::new(ByteStrings::new("E4.args.all_bytes=3", ByteStrings::all_bytes(), 3, 3)), 3));
        spaces.push((Box::new(ByteStrings::new("E4.args.boundary24.len5", BOUNDARY_BYTES.to_vec(), 5, 5)), 1));
    }
    let mut calls = 0u64;
    let mut accepted = 0u64;
    for (sp, nrecv) in &spaces {
        let st = run_space(ctx, sp.as_ref(), 1 << 10, &|b, l| {
            // receivers: with nrecv == 1 only the full one
            for ri in rs.len().saturating_sub(*nrecv)..rs.len() {
                check_arg(ri, &rs[ri].1, b, full, l, &coll);
            }
            if l.wants(0) && rm::is_attr(b) {
                l.sample(0, b, || "valid attribute/type/value".into());
            }
            if l.wants(1) && b.len() == 2 && !rm::is_ukey(b) && !rm::is_tkey(b) {
                l.sample(1, b, || "invalid key".into());
            }
        });
        calls += st.local.counters[0];
        accepted += st.local.counters[2];
        let name = sp.name();
        rep.states += st.inputs;
        rep.transitions += st.local.counters[0];
        rep.traces += st.local.counters[0];
        rep.evaluations += st.local.counters[0];
        rep.distinct_nontrivial += st.local.counters[2].min(st.inputs);
        let e = rep.extra.entry("engines".to_string()).or_insert_with(|| json!({}));
        e[name.as_str()] = json!({"space": sp.describe(), "argument_strings": st.inputs, "receivers": nrecv, "functions": FNS.len(),
            "calls": st.local.counters[0], "calls_returning_err": st.local.counters[1], "calls_returning_ok": st.local.counters[2],
            "wall_s": (st.wall * 100.0).round() / 100.0});
        rep.samples.extend(st.local.samples_json(2));
    }
    rep.extra.insert("argument_functions".into(), json!(FNS.iter().map(|f| f.name()).collect::<Vec<_>>()));
    rep.extra.insert("argument_receivers".into(), json!(rs.iter().map(|r| r.0).collect::<Vec<_>>()));
    if calls == 0 || accepted == 0 || accepted == calls {
        rep.engine_failures.push("vacuity guard: argument sweep saw no accepted or no rejected argument".into());
    }
    rep.collector = coll;
}

//! Property registry: `run` dispatches a property id to its decision procedure; `replay_case`
//! re-executes one recorded case.

pub mod inputs;
pub mod selftest;

use crate::engine::*;

pub fn run(ctx: &Ctx) -> Option<Report> {
    Some(match ctx.prop.as_str() {
        "C02" => inputs::run_c02(ctx),
        "C03" => inputs::run_c03(ctx),
        "C13" => inputs::run_c13(ctx),
        _ => return None,
    })
}

const SUBS: &[&str] = &[
    "c01.panic",
    "c02.value", "c02.to_string", "c02.accept", "c02.reject", "c02.error_kind", "c02.panic",
    "c02.fromstr", "c02.canonicalize", "c02.parser_fn",
    "c03.panic", "c03.must_accept", "c03.value", "c03.to_string", "c03.must_reject",
    "c04.canon", "c04.wellformed", "c04.canonicalize", "c04.length", "c04.langid_wellformed", "c04.langid_canon",
    "c05.locale", "c05.extensions", "c05.idempotent", "c05.langid",
    "c13.superset", "c13.conv", "c13.prefix",
];

pub fn sub_name(s: &str) -> Option<&'static str> {
    SUBS.iter().copied().find(|x| *x == s)
}

pub fn replayable(sub: &str) -> bool {
    sub_name(sub).is_some()
}

/// Re-executes one case; returns (sub, expected, observed) of every violation of the same
/// sub-check that it still produces.
pub fn replay_case(_ctx: &Ctx, sub: &'static str, case: &Case) -> Vec<(String, String, String)> {
    let coll = Collector::new();
    let mut l = Local::new();
    match case {
        Case::Input(b) => {
            let f: Option<&inputs::Checker> = match &sub[..3] {
                "c01" => Some(&inputs::check_c01_input),
                "c02" => Some(&inputs::check_c02),
                "c03" => Some(&inputs::check_c03),
                "c04" => Some(&inputs::check_c04),
                "c05" => Some(&inputs::check_c05),
                "c13" => Some(&inputs::check_c13),
                _ => None,
            };
            if let Some(f) = f {
                f(b, &mut l, &coll);
            }
        }
        _ => {}
    }
    coll.classes()
        .into_iter()
        .filter(|(_, _, v)| v.sub == sub)
        .map(|(_, _, v)| (v.sub.to_string(), v.expected, v.observed))
        .collect()
}

//! Property registry: `run` dispatches a property id to its decision procedure; `replay_case`
//! re-executes one recorded case.

pub mod direction;
pub mod inputs;
pub mod matches;
pub mod metamorphic;
pub mod universe;
#[cfg(feature = "likelysubtags")]
pub mod likely;
pub mod selftest;
pub mod subtags;
#[cfg(all(unic_locale_verif, feature = "likelysubtags"))]
pub mod tables;

use crate::engine::*;

pub fn run(ctx: &Ctx) -> Option<Report> {
    Some(match ctx.prop.as_str() {
        "C02" => inputs::run_c02(ctx),
        "C03" => inputs::run_c03(ctx),
        #[cfg(feature = "likelysubtags")]
        "C06" => likely::run_c06(ctx),
        #[cfg(feature = "likelysubtags")]
        "C07" => likely::run_c07(ctx),
        #[cfg(feature = "likelysubtags")]
        "C08" => likely::run_c08(ctx),
        "C09" => metamorphic::run_c09(ctx),
        "C11" => matches::run_c11(ctx),
        "C13" => inputs::run_c13(ctx),
        "C14" => direction::run_c14(ctx),
        "C15" => subtags::run_c15(ctx),
        #[cfg(all(unic_locale_verif, feature = "likelysubtags"))]
        "C18" => tables::run_c18(ctx),
        _ => return None,
    })
}

const SUBS: &[&str] = &[
    "c01.panic",
    "c02.value", "c02.to_string", "c02.accept", "c02.reject", "c02.error_kind", "c02.panic",
    "c02.fromstr", "c02.canonicalize", "c02.parser_fn",
    "c03.panic", "c03.must_accept", "c03.value", "c03.to_string", "c03.must_reject",
    "c04.canon", "c04.wellformed", "c04.canonicalize", "c04.length", "c04.langid_wellformed", "c04.langid_canon",
    "c05.locale", "c05.extensions", "c05.idempotent", "c05.langid",
    "c13.superset", "c13.conv", "c13.prefix",
    "c15.text", "c15.eq_str", "c15.accept", "c15.reject", "c15.panic", "c15.fromstr", "c15.tryfrom", "c15.und",
    "c17.raw",
    "c09.locale", "c09.langid",
    "c11.panic", "c11.formula", "c11.symmetry", "c11.language", "c11.equality", "c11.monotone", "c11.locale", "c11.asref", "c11.reflexive",
    "c14.setup", "c14.panic", "c14.cldr", "c14.cldr_base", "c14.script", "c14.default_ltr", "c14.variants",
    "c06.panic", "c06.maximize", "c06.entry", "c06.inplace",
    "c07.panic", "c07.keeps", "c07.fills", "c07.changed", "c07.idempotent", "c07.bool", "c07.false_unchanged", "c07.variants", "c07.extensions", "c07.setup",
    "c08.panic", "c08.meaning", "c08.subtags", "c08.longer", "c08.first", "c08.idempotent", "c08.min_max", "c08.reference", "c08.bool", "c08.false_unchanged", "c08.variants", "c08.extensions", "c08.setup",
];

pub fn sub_name(s: &str) -> Option<&'static str> {
    SUBS.iter().copied().find(|x| *x == s)
}

pub fn replayable(sub: &str) -> bool {
    sub_name(sub).is_some()
}

/// Re-executes one case; returns (sub, expected, observed) of every violation of the same
/// sub-check that it still produces.
pub fn replay_case(_ctx: &Ctx, sub: &'static str, case: &Case) -> Vec<(String, String, String)> {
    let coll = Collector::new();
    let mut l = Local::new();
    match case {
        Case::Input(b) => {
            let f: Option<&inputs::Checker> = match &sub[..3] {
                "c01" => Some(&inputs::check_c01_input),
                "c02" => Some(&inputs::check_c02),
                "c03" => Some(&inputs::check_c03),
                "c04" => Some(&inputs::check_c04),
                "c05" => Some(&inputs::check_c05),
                "c13" => Some(&inputs::check_c13),
                "c15" => Some(&subtags::check_c15),
                "c17" => Some(&subtags::check_raw_roundtrip),
                _ => None,
            };
            if let Some(f) = f {
                f(b, &mut l, &coll);
            }
        }
        #[cfg(feature = "likelysubtags")]
        Case::Text(t) if t.starts_with("triple:") => likely::replay(_ctx, sub, t, &coll),
        Case::Text(t) if t.starts_with("pair:") => matches::replay(t, &coll),
        Case::Text(t) if t.starts_with("mpair:") => metamorphic::replay(t, &coll),
        Case::Text(t) if t.starts_with("direction:") => direction::replay(_ctx, t, &coll),
        _ => {}
    }
    coll.classes()
        .into_iter()
        .filter(|(_, _, v)| v.sub == sub)
        .map(|(_, _, v)| (v.sub.to_string(), v.expected, v.observed))
        .collect()
}

pub fn likely_kind(t: refmodel::likely::Triple) -> u32 {
    (t.0 != 0) as u32 * 4 + (t.1 != 0) as u32 * 2 + (t.2 != 0) as u32
}

/// `mc aux <what> <tier>`: the part of a multi-build property that this build decides,
/// printed as one JSON line.
pub fn aux(ctx: &Ctx, what: &str) -> Option<serde_json::Value> {
    match what {
        "c14" => Some(direction::report_to_json(&direction::run_build(ctx))),
        _ => None,
    }
}

//! Property registry: `run` dispatches a property id to its decision procedure; `replay_case`
//! re-executes one recorded case.

pub mod args;
#[cfg(feature = "likelysubtags")]
pub mod conc;
pub mod counts;
pub mod direction;
pub mod features;
pub mod history;
pub mod inputs;
pub mod macros;
pub mod matches;
pub mod metamorphic;
pub mod universe;
pub mod values;
#[cfg(feature = "likelysubtags")]
pub mod likely;
pub mod selftest;
#[cfg(feature = "serde")]
pub mod serde_check;
pub mod subtags;
#[cfg(all(unic_locale_verif, feature = "likelysubtags"))]
pub mod tables;

use crate::engine::*;

pub fn run(ctx: &Ctx) -> Option<Report> {
    Some(match ctx.prop.as_str() {
        "C01" => values::run_c01(ctx),
        "C02" => inputs::run_c02(ctx),
        "C03" => inputs::run_c03(ctx),
        "C04" => values::run_c04(ctx),
        "C05" => values::run_c05(ctx),
        #[cfg(feature = "likelysubtags")]
        "C06" => likely::run_c06(ctx),
        #[cfg(feature = "likelysubtags")]
        "C07" => likely::run_c07(ctx),
        #[cfg(feature = "likelysubtags")]
        "C08" => likely::run_c08(ctx),
        "C09" => metamorphic::run_c09(ctx),
        "C10" => history::run_c10(ctx),
        "C11" => matches::run_c11(ctx),
        "C12" => values::run_c12(ctx),
        "C13" => inputs::run_c13(ctx),
        "C14" => direction::run_c14(ctx),
        "C15" => subtags::run_c15(ctx),
        "C16" => macros::run_c16(ctx),
        "C17" => values::run_c17(ctx),
        #[cfg(all(unic_locale_verif, feature = "likelysubtags"))]
        "C18" => tables::run_c18(ctx),
        #[cfg(feature = "serde")]
        "C19" => serde_check::run_c19(ctx),
        "C20" => features::run_c20(ctx),
        _ => return None,
    })
}

pub fn sub_name(s: &str) -> Option<&'static str> {
    if s.is_empty() {
        None
    } else {
        Some(Box::leak(s.to_string().into_boxed_str()))
    }
}

pub fn replayable(sub: &str) -> bool {
    !sub.is_empty()
}

/// cases that carry everything needed to re-execute them (the others are aggregate findings:
/// a table row, an injectivity count, a pair of representations met on two different routes)
pub fn case_replayable(case: &Case) -> bool {
    match case {
        Case::Input(_) | Case::Ops { .. } => true,
        // (cases of the feature-less build are decided by the second binary and cannot be
        // re-executed inside this one)
        Case::Text(t) => !t.starts_with("vpair:unreplayable:") && !t.starts_with("direction:base:") && ["triple:", "pair:", "mpair:", "direction:", "arg:", "partsidx:", "vpair:", "conc:", "unk:", "hist:", "dirhist:likelysubtags:", "count:", "countw:", "other:", "law7:", "spelling:"].iter().any(|p| t.starts_with(p)),
    }
}

/// Re-executes one case; returns (sub, expected, observed) of every violation of the same
/// sub-check that it still produces.
pub fn replay_case(_ctx: &Ctx, sub: &'static str, case: &Case) -> Vec<(String, String, String)> {
    let coll = Collector::new();
    let mut l = Local::new();
    match case {
        Case::Input(b) => {
            let fs: Vec<&inputs::Checker> = match &sub[..3] {
                "c01" => vec![&inputs::check_c01_input],
                "c02" => vec![&inputs::check_c02],
                "c03" => vec![&inputs::check_c03],
                "c04" => vec![&inputs::check_c04],
                "c05" => vec![&inputs::check_c05, &values::replay_subtag_rt, &values::replay_ext_string],
                "c12" => vec![&values::check_c12_input],
                "c13" => vec![&inputs::check_c13],
                "c15" => vec![&subtags::check_c15],
                "c17" => vec![&subtags::check_raw_roundtrip, &values::check_c17_input],
                #[cfg(feature = "serde")]
                "c19" => vec![&serde_check::check_c19],
                _ => vec![],
            };
            for f in fs {
                f(b, &mut l, &coll);
            }
        }
        #[cfg(feature = "likelysubtags")]
        Case::Text(t) if t.starts_with("triple:") => likely::replay(_ctx, sub, t, &coll),
        Case::Ops { harness, init, ops } => {
            match history::replay_ops(_ctx, harness, init, ops) {
                Ok(faults) => {
                    for f in faults {
                        coll.push(0, Violation { sub: f.sub, class: f.class, case: case.clone(), expected: f.expected, observed: f.observed });
                    }
                }
                Err(e) => eprintln!("replay: {}", e),
            }
        }
        #[cfg(feature = "likelysubtags")]
        Case::Text(t) if t.starts_with("spelling:") => likely::replay_spelling(t, &coll, sub),
        #[cfg(feature = "likelysubtags")]
        Case::Text(t) if t.starts_with("law7:") => likely::replay_law7(t, &coll),
        #[cfg(feature = "likelysubtags")]
        Case::Text(t) if t.starts_with("unk:") => likely::replay_unknown(_ctx, sub, t, &coll),
        #[cfg(feature = "likelysubtags")]
        Case::Text(t) if t.starts_with("hist:") => likely::replay_hist(_ctx, sub, t, &coll),
        #[cfg(feature = "likelysubtags")]
        Case::Text(t) if t.starts_with("conc:") => conc::replay(_ctx, sub, t, &coll),
        Case::Text(t) if t.starts_with("partsidx:") => values::replay_parts(t, &coll),
        Case::Text(t) if t.starts_with("count:") || t.starts_with("countw:") => counts::replay(t, &coll),
        Case::Text(t) if t.starts_with("other:") => values::replay_other(t, &coll),
        Case::Text(t) if t.starts_with("vpair:") => values::replay_vpair(t, &coll),
        Case::Text(t) if t.starts_with("arg:") => args::replay(t, &coll),
        Case::Text(t) if t.starts_with("pair:") => matches::replay(t, &coll),
        Case::Text(t) if t.starts_with("mpair:") => metamorphic::replay(t, &coll),
        Case::Text(t) if t.starts_with("dirhist:") => direction::replay_hist(t, &coll),
        Case::Text(t) if t.starts_with("direction:") => direction::replay(_ctx, t, &coll),
        _ => {}
    }
    coll.classes()
        .into_iter()
        .filter(|(_, _, v)| v.sub == sub)
        .map(|(_, _, v)| (v.sub.to_string(), v.expected, v.observed))
        .collect()
}

/// Re-executes `prev` and then `case` in the same thread (a history of two calls): for findings
/// of the E3.pairs space, where the answer for an input depends on the call before it.
pub fn replay_case_after(ctx: &Ctx, sub: &'static str, prev: &[u8], case: &Case) -> Vec<(String, String, String)> {
    let _ = replay_case(ctx, sub, &Case::Input(prev.to_vec()));
    replay_case(ctx, sub, case)
}

pub fn likely_kind(t: refmodel::likely::Triple) -> u32 {
    (t.0 != 0) as u32 * 4 + (t.1 != 0) as u32 * 2 + (t.2 != 0) as u32
}

/// `mc aux <what> <tier>`: the part of a multi-build property that this build decides,
/// printed as one JSON line.
pub fn aux(ctx: &Ctx, what: &str) -> Option<serde_json::Value> {
    match what {
        "c14" => Some(direction::report_to_json(&direction::run_build(ctx))),
        _ => None,
    }
}

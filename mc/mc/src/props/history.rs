//! E3 — explicit-state exploration of mutation histories (DESIGN §2.3).
//!
//! A state is the pair (real `Locale`, reference-model value).  A transition applies ONE public
//! call — the real method on the real value, its three-line counterpart on the model — with an
//! argument from a finite menu that contains valid, boundary and invalid arguments.  The search
//! is a level-synchronised breadth-first search that runs to exhaustion (all reachable states
//! of the harness); de-duplication is on full equality of the pair (hash buckets + `==`), so no
//! abstraction is involved and merging is sound by construction.  Every reachable state is
//! checked against the conjunction of per-state invariants that the properties C04, C05, C10,
//! C12, C13, C17 ask for; every transition against the per-call clauses of C07, C08, C10.
//! Each property's `run_*` keeps the faults whose sub-check belongs to it.
//!
//! The same transition function is also handed to `stateright` (spawn_bfs); the two explorers
//! must report the same number of unique states (engine cross-validation).

use crate::engine::*;
use crate::obs::*;
use refmodel::{self as rm, MLangId, MLocale};
use serde_json::{json, Value};
use std::collections::hash_map::DefaultHasher;
use std::collections::{BTreeMap, BTreeSet, HashMap};
use std::hash::{Hash, Hasher};
use std::str::FromStr;
use std::sync::atomic::{AtomicUsize, Ordering};
use std::sync::Mutex;
use unic_langid_impl::subtags::{Language, Region, Script, Variant};
use unic_langid_impl::LanguageIdentifier;
use unic_locale_impl::{ExtensionsMap, Locale};

// ------------------------------------------------------------------------------------------
// state, actions
// ------------------------------------------------------------------------------------------

#[derive(Clone, PartialEq, Eq, Hash, Debug)]
pub struct St {
    pub imp: Locale,
    pub model: MLocale,
}

type S = &'static str;

#[derive(Clone, PartialEq, Eq, Hash, Debug)]
pub enum Act {
    SetLanguage(S),
    ClearLanguage,
    SetScript(Option<S>),
    SetRegion(Option<S>),
    SetVariants(Vec<S>),
    ClearVariants,
    Maximize,
    Minimize,
    SetAttr(S),
    RemoveAttr(S),
    ClearAttrs,
    SetKeyword(S, Vec<S>),
    RemoveKeyword(S),
    ClearKeywords,
    SetTlang(S),
    ClearTlang,
    SetTfield(S, Vec<S>),
    RemoveTfield(S),
    ClearTfields,
    AddTag(S),
    RemoveTag(S),
    ClearTags,
    /// Locale -> LanguageIdentifier -> Locale (drops exactly the extensions)
    ViaLangId,
    /// loc.id = parse(text)
    SetId(S),
    /// loc.extensions = parse(text)
    SetExtensions(S),
    /// loc.extensions.unicode = Default (assigning a public field)
    ResetUnicode,
    /// loc.clone_from(&parse(text)) -- `Clone::clone_from` is a public mutation of the receiver
    CloneFrom(S),
    /// loc.id.clone_from(&parse(text))
    CloneIdFrom(S),
    /// loc.extensions.clone_from(&parse(text))
    CloneExtFrom(S),
    /// loc = std::mem::take(&mut loc) (Default + move), then back: the identity
    TakeAndRestore,
}

fn esc(s: &str) -> String {
    lossy(s.as_bytes())
}
fn esc_list(v: &[S]) -> String {
    format!("[{}]", v.iter().map(|s| esc(s)).collect::<Vec<_>>().join(","))
}

impl std::fmt::Display for Act {
    fn fmt(&self, f: &mut std::fmt::Formatter) -> std::fmt::Result {
        match self {
            Act::SetLanguage(s) => write!(f, "language={}", esc(s)),
            Act::ClearLanguage => write!(f, "language.clear()"),
            Act::SetScript(s) => write!(f, "script={}", s.map(esc).unwrap_or_else(|| "None".into())),
            Act::SetRegion(s) => write!(f, "region={}", s.map(esc).unwrap_or_else(|| "None".into())),
            Act::SetVariants(v) => write!(f, "set_variants({})", esc_list(v)),
            Act::ClearVariants => write!(f, "clear_variants()"),
            Act::Maximize => write!(f, "id.maximize()"),
            Act::Minimize => write!(f, "id.minimize()"),
            Act::SetAttr(a) => write!(f, "set_attribute({})", esc(a)),
            Act::RemoveAttr(a) => write!(f, "remove_attribute({})", esc(a)),
            Act::ClearAttrs => write!(f, "clear_attributes()"),
            Act::SetKeyword(k, v) => write!(f, "set_keyword({},{})", esc(k), esc_list(v)),
            Act::RemoveKeyword(k) => write!(f, "remove_keyword({})", esc(k)),
            Act::ClearKeywords => write!(f, "clear_keywords()"),
            Act::SetTlang(s) => write!(f, "set_tlang({})", esc(s)),
            Act::ClearTlang => write!(f, "clear_tlang()"),
            Act::SetTfield(k, v) => write!(f, "set_tfield({},{})", esc(k), esc_list(v)),
            Act::RemoveTfield(k) => write!(f, "remove_tfield({})", esc(k)),
            Act::ClearTfields => write!(f, "clear_tfields()"),
            Act::AddTag(t) => write!(f, "add_tag({})", esc(t)),
            Act::RemoveTag(t) => write!(f, "remove_tag({})", esc(t)),
            Act::ClearTags => write!(f, "clear_tags()"),
            Act::ViaLangId => write!(f, "Locale::from(LanguageIdentifier::from(loc))"),
            Act::SetId(s) => write!(f, "id=parse({})", esc(s)),
            Act::SetExtensions(s) => write!(f, "extensions=parse({})", esc(s)),
            Act::ResetUnicode => write!(f, "extensions.unicode=default"),
            Act::CloneFrom(s) => write!(f, "clone_from(parse({}))", esc(s)),
            Act::CloneIdFrom(s) => write!(f, "id.clone_from(parse({}))", esc(s)),
            Act::CloneExtFrom(s) => write!(f, "extensions.clone_from(parse({}))", esc(s)),
            Act::TakeAndRestore => write!(f, "take_and_restore()"),
        }
    }
}

impl Act {
    /// family index for the per-action coverage table
    fn family(&self) -> &'static str {
        match self {
            Act::SetLanguage(_) => "language=",
            Act::ClearLanguage => "language.clear",
            Act::SetScript(_) => "script=",
            Act::SetRegion(_) => "region=",
            Act::SetVariants(_) => "set_variants",
            Act::ClearVariants => "clear_variants",
            Act::Maximize => "maximize",
            Act::Minimize => "minimize",
            Act::SetAttr(_) => "set_attribute",
            Act::RemoveAttr(_) => "remove_attribute",
            Act::ClearAttrs => "clear_attributes",
            Act::SetKeyword(..) => "set_keyword",
            Act::RemoveKeyword(_) => "remove_keyword",
            Act::ClearKeywords => "clear_keywords",
            Act::SetTlang(_) => "set_tlang",
            Act::ClearTlang => "clear_tlang",
            Act::SetTfield(..) => "set_tfield",
            Act::RemoveTfield(_) => "remove_tfield",
            Act::ClearTfields => "clear_tfields",
            Act::AddTag(_) => "add_tag",
            Act::RemoveTag(_) => "remove_tag",
            Act::ClearTags => "clear_tags",
            Act::ViaLangId => "via_langid",
            Act::SetId(_) => "id=",
            Act::SetExtensions(_) => "extensions=",
            Act::ResetUnicode => "unicode=default",
            Act::CloneFrom(_) => "clone_from",
            Act::CloneIdFrom(_) => "id.clone_from",
            Act::CloneExtFrom(_) => "extensions.clone_from",
            Act::TakeAndRestore => "take_and_restore",
        }
    }
}

#[derive(Clone, Debug)]
pub struct Fault {
    pub sub: &'static str,
    pub class: String,
    pub expected: String,
    pub observed: String,
}

fn fault(out: &mut Vec<Fault>, sub: &'static str, class: impl Into<String>, expected: impl Into<String>, observed: impl Into<String>) {
    out.push(Fault { sub, class: class.into(), expected: expected.into(), observed: observed.into() });
}

/// what a call returned, comparable between implementation and model
#[derive(Clone, Debug, PartialEq, Eq)]
pub enum Ret {
    Unit,
    Bool(bool),
    Err,
    /// model side only: the property does not fix the flag of this call
    AnyBool,
}

// ------------------------------------------------------------------------------------------
// likely-subtags context for the maximize / minimize actions
// ------------------------------------------------------------------------------------------

pub struct LikelyCtx {
    pub lk: rm::likely::Likely,
    li: HashMap<String, u16>,
    si: HashMap<String, u16>,
    ri: HashMap<String, u16>,
}

impl LikelyCtx {
    pub fn new(repo: &str) -> LikelyCtx {
        let lk = super::universe::load_likely(repo);
        let mk = |v: &Vec<String>| v.iter().enumerate().map(|(i, s)| (s.clone(), i as u16)).collect::<HashMap<_, _>>();
        LikelyCtx { li: mk(&lk.langs), si: mk(&lk.scripts), ri: mk(&lk.regions), lk }
    }
    fn ids(&self, m: &MLangId) -> (u16, u16, u16) {
        let f = |map: &HashMap<String, u16>, x: &Option<String>| -> u16 {
            match x {
                None => 0,
                Some(s) => *map.get(s).unwrap_or_else(|| panic!("menu subtag {} is not in the CLDR universe", s)),
            }
        };
        (f(&self.li, &m.lang), f(&self.si, &m.script), f(&self.ri, &m.region))
    }
    fn write(&self, t: (u16, u16, u16), m: &mut MLangId) {
        let g = |v: &Vec<String>, i: u16| if i == 0 { None } else { Some(v[i as usize].clone()) };
        m.lang = g(&self.lk.langs, t.0);
        m.script = g(&self.lk.scripts, t.1);
        m.region = g(&self.lk.regions, t.2);
    }
}

// ------------------------------------------------------------------------------------------
// harness
// ------------------------------------------------------------------------------------------

#[derive(Clone, Default)]
pub struct Probes {
    pub attrs: Vec<S>,
    pub keys: Vec<S>,
    pub tkeys: Vec<S>,
    pub tags: Vec<S>,
    pub variants: Vec<S>,
}

pub struct Harness {
    pub name: &'static str,
    pub inits: Vec<(String, St)>,
    pub menu: Vec<Act>,
    pub probes: Probes,
    /// `add_tag` is disabled at this many private tags (keeps the multiset finite)
    pub tag_cap: usize,
    pub likely: Option<std::sync::Arc<LikelyCtx>>,
}

pub fn parse_state(s: &str) -> St {
    try_parse_state(s).unwrap_or_else(|e| panic!("{}", e))
}

/// `Err` when the library under test rejects a well-formed menu string (a defect that the
/// input-space checks report; a harness then starts from the remaining initial states)
pub fn try_parse_state(s: &str) -> Result<St, String> {
    let tokens = rm::split_tokens(s.as_bytes());
    let a = rm::run_locale(&tokens, rm::Mode::StrictBareTkey).unwrap_or_else(|| panic!("harness init {:?} must be well-formed", s));
    match guard(|| s.parse::<Locale>()) {
        Out::Ok(imp) => Ok(St { imp, model: a.value }),
        o => Err(format!("the library does not parse the well-formed string {:?}: {}", s, o.brief(|x| x.to_string()))),
    }
}

pub fn default_state() -> St {
    St { imp: Locale::default(), model: MLocale::default() }
}

fn model_langid(s: &str) -> MLangId {
    match rm::langid_oracle(s.as_bytes()) {
        rm::LangIdVerdict::Accept(m) => m,
        v => panic!("menu language identifier {:?} is not well-formed: {:?}", s, v),
    }
}

fn snapshot_ext(imp: &Locale) -> (ExtensionsMap, String) {
    (imp.extensions.clone(), imp.extensions.to_string())
}

impl Harness {
    /// Applies `a` to a copy of `st`.  `None` = the action is disabled here (boundary) or the
    /// implementation panicked (recorded as a fault).  Deterministic in (st, a).
    pub fn step(&self, st: &St, a: &Act, faults: &mut Vec<Fault>) -> Option<(St, Ret)> {
        if let Act::AddTag(_) = a {
            if st.model.tags.len() >= self.tag_cap {
                return None;
            }
        }
        #[cfg(not(feature = "likelysubtags"))]
        if matches!(a, Act::Maximize | Act::Minimize) {
            return None;
        }
        let mut imp = st.imp.clone();
        let mut model = st.model.clone();
        let r_imp = guard_total(|| apply_imp(&mut imp, a));
        let r_imp = match r_imp {
            Ok(r) => r,
            Err(p) => {
                fault(faults, "c01.panic", format!("{} panics: {}", a.family(), p), "Ok or Err", format!("PANIC({})", p));
                fault(faults, "c10.panic", format!("{} panics: {}", a.family(), p), "Ok or Err", format!("PANIC({})", p));
                return None;
            }
        };
        let r_mod = self.apply_model(&mut model, a, &imp, faults);
        if r_imp != r_mod && !(r_mod == Ret::AnyBool && matches!(r_imp, Ret::Bool(_))) {
            fault(faults, "c10.result", format!("{}: return value differs from the model", a.family()), format!("{:?}", r_mod), format!("{:?}", r_imp));
        }
        if r_imp == Ret::Err && imp != st.imp {
            fault(faults, "c10.err_unchanged", format!("{}: returned Err but changed the value", a.family()), st.imp.to_string(), imp.to_string());
        }
        if r_mod == Ret::Err {
            // the model never changes on Err; keep the search on the implementation's value
            debug_assert!(model == st.model);
        }
        // C07 / C08 per-call clauses
        if matches!(a, Act::Maximize | Act::Minimize) {
            let (sub_v, sub_e, sub_f, sub_k): (&'static str, &'static str, &'static str, &'static str) = if *a == Act::Maximize {
                ("c07.variants", "c07.extensions", "c07.false_unchanged", "c07.keeps")
            } else {
                ("c08.variants", "c08.extensions", "c08.false_unchanged", "c08.subtags")
            };
            let vb: Vec<_> = st.imp.id.variants().cloned().collect();
            let va: Vec<_> = imp.id.variants().cloned().collect();
            if vb != va {
                fault(faults, sub_v, format!("{} touched the variants", a.family()), format!("{:?}", vb), format!("{:?}", va));
            }
            if imp.extensions != st.imp.extensions || imp.extensions.to_string() != st.imp.extensions.to_string() {
                fault(faults, sub_e, format!("{} touched the extensions", a.family()), st.imp.extensions.to_string(), imp.extensions.to_string());
            }
            if r_imp == Ret::Bool(false) && imp != st.imp {
                fault(faults, sub_f, format!("{} returned false but changed the identifier", a.family()), st.imp.to_string(), imp.to_string());
            }
            if r_imp == Ret::Bool(true) && *a == Act::Maximize {
                let keep = |b: Option<String>, a: Option<String>| b.is_none() || a == b;
                let ob = obs_langid(&st.imp.id);
                let oa = obs_langid(&imp.id);
                if !(keep(ob.lang.clone(), oa.lang.clone()) && keep(ob.script.clone(), oa.script.clone()) && keep(ob.region.clone(), oa.region.clone())) {
                    fault(faults, sub_k, "maximize changed a subtag that was present", show_olangid(&ob), show_olangid(&oa));
                }
                if oa.lang.is_none() || oa.script.is_none() || oa.region.is_none() {
                    fault(faults, "c07.fills", "maximize returned true but left a subtag empty", "all three present", show_olangid(&oa));
                }
                let mut again = imp.clone();
                #[cfg(feature = "likelysubtags")]
                if again.id.maximize() || again != imp {
                    fault(faults, "c07.idempotent", "maximizing a maximized identifier changed it", imp.to_string(), again.to_string());
                }
                let _ = &mut again;
            }
            if *a == Act::Minimize {
                #[cfg(feature = "likelysubtags")]
                {
                    // minimize(maximize(x)) == minimize(x) at return level (DESIGN §6.1): the two
                    // calls return the same bool and, when true, leave equal identifiers
                    let mut mx = st.imp.clone();
                    mx.id.maximize();
                    let b2 = mx.id.minimize();
                    let changed = r_imp == Ret::Bool(true);
                    if (b2 != changed || (changed && mx != imp)) && mx != imp {
                        fault(faults, "c08.min_max", "minimize(maximize(x)) differs from minimize(x)", format!("{} {}", changed, imp), format!("{} {}", b2, mx));
                    }
                    // twice == once (values; the bool of the second call is not constrained)
                    let mut again = imp.clone();
                    again.id.minimize();
                    if again != imp {
                        fault(faults, "c08.idempotent", "minimizing twice differs from minimizing once", imp.to_string(), again.to_string());
                    }
                }
            }
        }
        if *a == Act::ViaLangId {
            let mut want = st.imp.clone();
            want.extensions = ExtensionsMap::default();
            if imp != want {
                fault(faults, "c13.conv", "Locale -> LanguageIdentifier -> Locale is not the locale without its extensions", want.to_string(), imp.to_string());
            }
        }
        Some((St { imp, model }, r_imp))
    }

    fn apply_model(&self, m: &mut MLocale, a: &Act, imp_after: &Locale, _faults: &mut Vec<Fault>) -> Ret {
        let b = |s: &S| s.as_bytes();
        let r = |x: Result<(), ()>| if x.is_ok() { Ret::Unit } else { Ret::Err };
        let rb = |x: Result<bool, ()>| match x {
            Ok(v) => Ret::Bool(v),
            Err(()) => Ret::Err,
        };
        match a {
            Act::SetLanguage(s) => {
                let l = rm::lower(b(s));
                m.id.lang = if l == "und" { None } else { Some(l) };
                Ret::Unit
            }
            Act::ClearLanguage => {
                m.id.lang = None;
                Ret::Unit
            }
            Act::SetScript(s) => {
                m.id.script = s.map(|s| rm::title(s.as_bytes()));
                Ret::Unit
            }
            Act::SetRegion(s) => {
                m.id.region = s.map(|s| rm::upper(s.as_bytes()));
                Ret::Unit
            }
            Act::SetVariants(v) => {
                m.id.variants = v.iter().map(|s| rm::lower(s.as_bytes())).collect();
                Ret::Unit
            }
            Act::ClearVariants => {
                m.id.variants.clear();
                Ret::Unit
            }
            Act::Maximize | Act::Minimize => {
                let lc = self.likely.as_ref().expect("harness with maximize/minimize needs the likely-subtags reference");
                let t = lc.ids(&m.id);
                let want = if *a == Act::Maximize { lc.lk.ref_maximize(t) } else { lc.lk.ref_minimize(t) };
                let mut chosen = want;
                let mut any_flag = false;
                if *a == Act::Minimize {
                    // where a UTS #35 fallback that C06 accepts is in reach of the rule's maximize
                    // calls, follow the implementation if its outcome is one of the accepted ones
                    let opts = lc.lk.ref_minimize_options(t);
                    for o in &opts {
                        let mut probe = m.id.clone();
                        if let Some(t2) = o {
                            lc.write(*t2, &mut probe);
                        }
                        if diff_langid(&obs_langid(&imp_after.id), &exp_langid(&probe)).is_none() {
                            chosen = *o;
                            break;
                        }
                    }
                    // C08 does not fix the flag when the minimal form is the identifier itself
                    any_flag = chosen == Some(t) || (chosen.is_none() && opts.contains(&Some(t)));
                }
                if *a == Act::Maximize && want.is_none() {
                    // C06 accepts a UTS #35 fallback where the dictionary finds nothing: follow the
                    // implementation if it took exactly that fallback
                    if let Some(fb) = lc.lk.uts35_fallback(t) {
                        let mut probe = m.id.clone();
                        lc.write(fb, &mut probe);
                        if diff_langid(&obs_langid(&imp_after.id), &exp_langid(&probe)).is_none() {
                            chosen = Some(fb);
                        }
                    }
                }
                match chosen {
                    Some(t2) => {
                        lc.write(t2, &mut m.id);
                        if any_flag { Ret::AnyBool } else { Ret::Bool(true) }
                    }
                    None => if any_flag { Ret::AnyBool } else { Ret::Bool(false) },
                }
            }
            Act::SetAttr(x) => r(m.set_attribute(b(x))),
            Act::RemoveAttr(x) => rb(m.remove_attribute(b(x))),
            Act::ClearAttrs => {
                m.clear_attributes();
                Ret::Unit
            }
            Act::SetKeyword(k, v) => {
                let vals: Vec<&[u8]> = v.iter().map(|s| s.as_bytes()).collect();
                r(m.set_keyword(b(k), &vals))
            }
            Act::RemoveKeyword(k) => rb(m.remove_keyword(b(k))),
            Act::ClearKeywords => {
                m.clear_keywords();
                Ret::Unit
            }
            Act::SetTlang(s) => {
                m.set_tlang(model_langid(s));
                Ret::Unit
            }
            Act::ClearTlang => {
                m.clear_tlang();
                Ret::Unit
            }
            Act::SetTfield(k, v) => {
                let vals: Vec<&[u8]> = v.iter().map(|s| s.as_bytes()).collect();
                r(m.set_tfield(b(k), &vals))
            }
            Act::RemoveTfield(k) => rb(m.remove_tfield(b(k))),
            Act::ClearTfields => {
                m.clear_tfields();
                Ret::Unit
            }
            Act::AddTag(t) => r(m.add_tag(b(t))),
            Act::RemoveTag(t) => rb(m.remove_tag(b(t))),
            Act::ClearTags => {
                m.clear_tags();
                Ret::Unit
            }
            Act::ViaLangId => {
                let id = m.id.clone();
                *m = MLocale { id, ..Default::default() };
                Ret::Unit
            }
            Act::SetId(s) => {
                m.id = model_langid(s);
                Ret::Unit
            }
            Act::SetExtensions(s) => {
                let body = s.trim_start_matches('-');
                let txt = if body.is_empty() { "und".to_string() } else { format!("und-{}", body) };
                let tokens = rm::split_tokens(txt.as_bytes());
                let a = rm::run_locale(&tokens, rm::Mode::StrictBareTkey).expect("menu extension string must be well-formed");
                let id = m.id.clone();
                *m = a.value;
                m.id = id;
                Ret::Unit
            }
            Act::ResetUnicode => {
                m.attrs.clear();
                m.keywords.clear();
                Ret::Unit
            }
            Act::CloneFrom(s) => {
                let tokens = rm::split_tokens(s.as_bytes());
                *m = rm::run_locale(&tokens, rm::Mode::StrictBareTkey).expect("menu locale must be well-formed").value;
                Ret::Unit
            }
            Act::CloneIdFrom(s) => {
                m.id = model_langid(s);
                Ret::Unit
            }
            Act::CloneExtFrom(s) => {
                let body = s.trim_start_matches('-');
                let txt = if body.is_empty() { "und".to_string() } else { format!("und-{}", body) };
                let tokens = rm::split_tokens(txt.as_bytes());
                let a = rm::run_locale(&tokens, rm::Mode::StrictBareTkey).expect("menu extension string must be well-formed");
                let id = m.id.clone();
                *m = a.value;
                m.id = id;
                Ret::Unit
            }
            Act::TakeAndRestore => Ret::Unit,
        }
    }
}

fn apply_imp(imp: &mut Locale, a: &Act) -> Ret {
    fn r<E>(x: Result<(), E>) -> Ret {
        if x.is_ok() {
            Ret::Unit
        } else {
            Ret::Err
        }
    }
    fn rb<E>(x: Result<bool, E>) -> Ret {
        match x {
            Ok(v) => Ret::Bool(v),
            Err(_) => Ret::Err,
        }
    }
    match a {
        Act::SetLanguage(s) => {
            imp.id.language = Language::from_str(s).expect("menu language");
            Ret::Unit
        }
        Act::ClearLanguage => {
            imp.id.language.clear();
            Ret::Unit
        }
        Act::SetScript(s) => {
            imp.id.script = s.map(|s| Script::from_str(s).expect("menu script"));
            Ret::Unit
        }
        Act::SetRegion(s) => {
            imp.id.region = s.map(|s| Region::from_str(s).expect("menu region"));
            Ret::Unit
        }
        Act::SetVariants(v) => {
            let vs: Vec<Variant> = v.iter().map(|s| Variant::from_str(s).expect("menu variant")).collect();
            imp.id.set_variants(&vs);
            Ret::Unit
        }
        Act::ClearVariants => {
            imp.id.clear_variants();
            Ret::Unit
        }
        #[cfg(feature = "likelysubtags")]
        Act::Maximize => Ret::Bool(imp.id.maximize()),
        #[cfg(feature = "likelysubtags")]
        Act::Minimize => Ret::Bool(imp.id.minimize()),
        #[cfg(not(feature = "likelysubtags"))]
        Act::Maximize | Act::Minimize => Ret::Bool(false),
        Act::SetAttr(x) => r(imp.extensions.unicode.set_attribute(x)),
        Act::RemoveAttr(x) => rb(imp.extensions.unicode.remove_attribute(x)),
        Act::ClearAttrs => {
            imp.extensions.unicode.clear_attributes();
            Ret::Unit
        }
        Act::SetKeyword(k, v) => r(imp.extensions.unicode.set_keyword(*k, v)),
        Act::RemoveKeyword(k) => rb(imp.extensions.unicode.remove_keyword(k)),
        Act::ClearKeywords => {
            imp.extensions.unicode.clear_keywords();
            Ret::Unit
        }
        Act::SetTlang(s) => {
            let li = LanguageIdentifier::from_str(s).expect("menu tlang");
            r(imp.extensions.transform.set_tlang(li))
        }
        Act::ClearTlang => {
            imp.extensions.transform.clear_tlang();
            Ret::Unit
        }
        Act::SetTfield(k, v) => r(imp.extensions.transform.set_tfield(*k, v)),
        Act::RemoveTfield(k) => rb(imp.extensions.transform.remove_tfield(k)),
        Act::ClearTfields => {
            imp.extensions.transform.clear_tfields();
            Ret::Unit
        }
        Act::AddTag(t) => r(imp.extensions.private.add_tag(t)),
        Act::RemoveTag(t) => rb(imp.extensions.private.remove_tag(t)),
        Act::ClearTags => {
            imp.extensions.private.clear_tags();
            Ret::Unit
        }
        Act::ViaLangId => {
            let id: LanguageIdentifier = std::mem::take(imp).into();
            *imp = Locale::from(id);
            Ret::Unit
        }
        Act::SetId(s) => {
            imp.id = LanguageIdentifier::from_str(s).expect("menu id");
            Ret::Unit
        }
        Act::SetExtensions(s) => {
            imp.extensions = ExtensionsMap::from_str(s).expect("menu extensions");
            Ret::Unit
        }
        Act::ResetUnicode => {
            imp.extensions.unicode = Default::default();
            Ret::Unit
        }
        Act::CloneFrom(s) => {
            let src = Locale::from_str(s).expect("menu locale");
            imp.clone_from(&src);
            Ret::Unit
        }
        Act::CloneIdFrom(s) => {
            let src = LanguageIdentifier::from_str(s).expect("menu id");
            imp.id.clone_from(&src);
            Ret::Unit
        }
        Act::CloneExtFrom(s) => {
            let src = ExtensionsMap::from_str(s).expect("menu extensions");
            imp.extensions.clone_from(&src);
            Ret::Unit
        }
        Act::TakeAndRestore => {
            let taken = std::mem::take(imp);
            if *imp != Locale::default() {
                // (reported through the getters of the next state: leave the non-default rest in place)
                return Ret::Err;
            }
            *imp = taken;
            Ret::Unit
        }
    }
}

pub fn hash_of<T: Hash>(x: &T) -> u64 {
    let mut h = DefaultHasher::new();
    x.hash(&mut h);
    h.finish()
}

// ------------------------------------------------------------------------------------------
// per-state invariants
// ------------------------------------------------------------------------------------------

fn res_iter<'a, E>(x: Result<impl Iterator<Item = &'a str>, E>) -> Result<Vec<String>, ()> {
    match x {
        Ok(it) => Ok(it.map(|s| s.to_string()).collect()),
        Err(_) => Err(()),
    }
}
fn res_bool<E>(x: Result<bool, E>) -> Result<bool, ()> {
    x.map_err(|_| ())
}

impl Harness {
    /// Evaluates every per-state invariant; a panic inside any of the library calls is a fault.
    pub fn check(&self, st: &St, faults: &mut Vec<Fault>) {
        let mut local = vec![];
        let r = guard_total(|| self.check_inner(st, &mut local));
        faults.append(&mut local);
        if let Err(p) = r {
            fault(faults, "c01.panic", format!("a getter/serialiser/parser panics on a reachable value: {}", p), "no panic", format!("PANIC({})", p));
            fault(faults, "c10.panic", format!("a getter/serialiser/parser panics on a reachable value: {}", p), "no panic", format!("PANIC({})", p));
        }
    }

    fn check_inner(&self, st: &St, f: &mut Vec<Fault>) {
        let imp = &st.imp;
        let m = &st.model;
        // ---- C10: every getter equals the model
        let o = obs_locale(imp);
        let e = exp_locale(m);
        if let Some(field) = diff_locale(&o, &e) {
            fault(f, "c10.getters", format!("getter {} differs from the model", field), show_olocale(&e), show_olocale(&o));
        }
        let u = &imp.extensions.unicode;
        let t = &imp.extensions.transform;
        let p = &imp.extensions.private;
        let empties = [
            ("language.is_empty", imp.id.language.is_empty(), m.id.lang.is_none()),
            ("unicode.is_empty", u.is_empty(), m.u_is_empty()),
            ("transform.is_empty", t.is_empty(), m.t_is_empty()),
            ("private.is_empty", p.is_empty(), m.tags.is_empty()),
            ("extensions.is_empty", imp.extensions.is_empty(), m.ext_is_empty()),
        ];
        for (n, got, want) in empties {
            if got != want {
                fault(f, "c10.is_empty", format!("{} differs from the model", n), want.to_string(), got.to_string());
            }
        }
        // ---- C10: the iterator getters answer len / size_hint / count / last / nth / fold / skip /
        // step_by like the model's sequence (not only a next() walk)
        {
            let own = |s: &str| s.to_string();
            let mut laws: Vec<(String, Option<String>)> = vec![];
            laws.push(("variants()".into(), iter_laws(|| imp.id.variants(), |v: &Variant| v.as_str().to_string(), &e.id.variants)));
            laws.push(("attributes()".into(), iter_laws(|| u.attributes(), own, &e.attrs)));
            let kk: Vec<String> = e.keywords.iter().map(|x| x.0.clone()).collect();
            laws.push(("keyword_keys()".into(), iter_laws(|| u.keyword_keys(), own, &kk)));
            for (k, vals) in &e.keywords {
                if u.keyword(k).is_ok() {
                    laws.push((format!("keyword({})", k), iter_laws(|| u.keyword(k).ok().unwrap(), own, vals)));
                }
            }
            let tk: Vec<String> = e.tfields.iter().map(|x| x.0.clone()).collect();
            laws.push(("tfield_keys()".into(), iter_laws(|| t.tfield_keys(), own, &tk)));
            for (k, vals) in &e.tfields {
                if t.tfield(k).is_ok() {
                    laws.push((format!("tfield({})", k), iter_laws(|| t.tfield(k).ok().unwrap(), own, vals)));
                }
            }
            laws.push(("tags()".into(), iter_laws(|| p.tags(), own, &e.tags)));
            if let Some(tl) = t.tlang() {
                if let Some(etl) = &e.tlang {
                    laws.push(("tlang().variants()".into(), iter_laws(|| tl.variants(), |v: &Variant| v.as_str().to_string(), &etl.variants)));
                }
            }
            for (name, r) in laws {
                if let Some(why) = r {
                    fault(f, "c10.iter", format!("iterator getter {} disagrees with the model's sequence", name.split('(').next().unwrap_or("")), format!("{}: the model's sequence", name), why);
                }
            }
        }
        for v in &self.probes.variants {
            let vv = Variant::from_str(v).expect("probe variant");
            let got = imp.id.has_variant(vv);
            let want = m.id.has_variant(&rm::lower(v.as_bytes()));
            if got != want {
                fault(f, "c10.has", "has_variant differs from the model", format!("{}: {}", v, want), format!("{}", got));
            }
        }
        for a in &self.probes.attrs {
            let got = res_bool(u.has_attribute(a));
            let want = m.has_attribute(a.as_bytes());
            if got != want {
                fault(f, "c10.has", "has_attribute differs from the model", format!("{}: {:?}", esc(a), want), format!("{:?}", got));
            }
        }
        for k in &self.probes.keys {
            let got = res_iter(u.keyword(k));
            let want = m.keyword(k.as_bytes());
            if got != want {
                fault(f, "c10.has", "keyword(k) differs from the model", format!("{}: {:?}", esc(k), want), format!("{:?}", got));
            }
        }
        for k in &self.probes.tkeys {
            let got = res_iter(t.tfield(k));
            let want = m.tfield(k.as_bytes());
            if got != want {
                fault(f, "c10.has", "tfield(k) differs from the model", format!("{}: {:?}", esc(k), want), format!("{:?}", got));
            }
        }
        for x in &self.probes.tags {
            let got = res_bool(p.has_tag(x));
            let want = m.has_tag(x.as_bytes());
            if got != want {
                fault(f, "c10.has", "has_tag differs from the model", format!("{}: {:?}", esc(x), want), format!("{:?}", got));
            }
        }
        // ---- C04 / C10: to_string is the canonical string of the model, well-formed, fixed point
        let s = imp.to_string();
        let canon = m.canon();
        if s != canon {
            fault(f, "c10.to_string", "to_string differs from the model's canonical string", canon.clone(), s.clone());
            fault(f, "c04.canon", "to_string of a mutated value is not the canonical form", canon.clone(), s.clone());
        }
        if let Err(why) = rm::check_canonical_locale_string(&s) {
            fault(f, "c04.wellformed", format!("output of a mutated value is not well-formed/canonical: {}", why.split('"').next().unwrap_or("").trim()), "a well-formed canonical identifier", format!("{} ({})", s, why));
        }
        let ids = imp.id.to_string();
        if let Err(why) = rm::check_canonical_langid_string(&ids) {
            fault(f, "c04.langid_wellformed", format!("langid output of a mutated value is not well-formed/canonical: {}", why.split('"').next().unwrap_or("").trim()), "a well-formed canonical language identifier", format!("{} ({})", ids, why));
        }
        match unic_locale_impl::canonicalize(&s) {
            Ok(c) if c == s => {}
            o => {
                fault(f, "c04.canonicalize", "canonicalize(to_string()) is not to_string()", s.clone(), format!("{:?}", o));
                fault(f, "c05.idempotent", "canonicalize is not idempotent on a serialised value", s.clone(), format!("{:?}", o));
            }
        }
        // ---- C05 / C10: re-parse gives back the same value
        match Locale::from_str(&s) {
            Ok(l2) if l2 == *imp => {
                if hash_of(&l2) != hash_of(imp) || l2.cmp(imp) != std::cmp::Ordering::Equal {
                    fault(f, "c12.route", "re-parsed value is == but hashes/compares differently", "equal hash, Ordering::Equal", format!("{:?}", l2.cmp(imp)));
                }
            }
            o => {
                let os = match &o {
                    Ok(l2) => format!("Ok({:?})", l2),
                    Err(e) => format!("Err({:?})", e),
                };
                if s == canon && o.is_ok() {
                    fault(f, "c12.route", "a value reached by mutation is not the value obtained by parsing its own canonical string (two representations of one logical value)", format!("Ok({:?})", imp), os.clone());
                }
                fault(f, "c05.locale", "re-parsing the serialised value does not give it back", format!("Ok({:?})", imp), format!("{} for {}", os, s));
                fault(f, "c10.reparse", "re-parsing the serialised value does not give it back", format!("Ok({})", s), os);
            }
        }
        let es = imp.extensions.to_string();
        match ExtensionsMap::from_str(&es) {
            Ok(e2) if e2 == imp.extensions => {}
            o => fault(f, "c05.extensions", "ExtensionsMap output does not re-parse to an equal map", format!("Ok({})", es), format!("{:?}", o.map(|x| x.to_string()))),
        }
        match LanguageIdentifier::from_str(&ids) {
            Ok(l2) if l2 == imp.id => {}
            o => fault(f, "c05.langid", "language identifier output does not re-parse to an equal value", format!("Ok({:?})", imp.id), format!("{:?} for {}", o, ids)),
        }
        if let Some(tl) = t.tlang() {
            let tls = tl.to_string();
            match LanguageIdentifier::from_str(&tls) {
                Ok(l2) if l2 == *tl => {}
                o => fault(f, "c05.langid", "tlang output does not re-parse to an equal value", format!("Ok({:?})", tl), format!("{:?} for {}", o, tls)),
            }
        }
        // ---- C17: decomposition round trips
        {
            let (l, sc, r, v, ext) = imp.clone().into_parts();
            match ExtensionsMap::from_str(&ext) {
                Ok(em) => {
                    let back = Locale::from_parts(l, sc, r, &v, Some(em));
                    if back != *imp {
                        fault(f, "c17.parts", "Locale::from_parts(into_parts(x)) != x", format!("{:?}", imp), format!("{:?}", back));
                    }
                    // variants in any order, with duplicates
                    let mut v2 = v.clone();
                    v2.reverse();
                    if let Some(first) = v.first() {
                        v2.push(*first);
                    }
                    let back2 = Locale::from_parts(l, sc, r, &v2, Some(imp.extensions.clone()));
                    if back2 != *imp {
                        fault(f, "c17.parts_order", "from_parts with reversed+duplicated variants != x", format!("{:?}", imp), format!("{:?}", back2));
                    }
                }
                Err(e) => fault(f, "c17.parts", "the extension string of into_parts does not parse as an ExtensionsMap", format!("Ok for {:?}", ext), format!("Err({:?})", e)),
            }
            let (l, sc, r, v) = imp.id.clone().into_parts();
            let back = LanguageIdentifier::from_parts(l, sc, r, &v);
            if back != imp.id {
                fault(f, "c17.parts", "LanguageIdentifier::from_parts(into_parts(x)) != x", format!("{:?}", imp.id), format!("{:?}", back));
            }
            let joined = {
                let mut x = l.to_string();
                if let Some(sc) = sc {
                    x.push('-');
                    x.push_str(sc.as_str());
                }
                if let Some(r) = r {
                    x.push('-');
                    x.push_str(r.as_str());
                }
                for vv in v.iter().rev() {
                    x.push('-');
                    x.push_str(vv.as_str());
                }
                x
            };
            match LanguageIdentifier::from_str(&joined) {
                Ok(p) if p == imp.id => {}
                o => fault(f, "c17.parts_parse", "from_parts differs from parsing the joined string", format!("{:?}", imp.id), format!("{:?} for {}", o, joined)),
            }
        }
        // ---- C13: conversions
        {
            let id: LanguageIdentifier = imp.clone().into();
            if id != imp.id {
                fault(f, "c13.conv", "LanguageIdentifier::from(loc) != loc.id", format!("{:?}", imp.id), format!("{:?}", id));
            }
            let back: LanguageIdentifier = Locale::from(id.clone()).into();
            if back != id {
                fault(f, "c13.conv", "LanguageIdentifier -> Locale -> LanguageIdentifier is not the identity", format!("{:?}", id), format!("{:?}", back));
            }
            let r: &LanguageIdentifier = imp.as_ref();
            if *r != imp.id {
                fault(f, "c13.conv", "AsRef<LanguageIdentifier> != loc.id", format!("{:?}", imp.id), format!("{:?}", r));
            }
        }
        // ---- C12: comparison with &str is true iff the string is the canonical text
        {
            if !(imp.id == ids.as_str()) {
                fault(f, "c12.eq_str", "LanguageIdentifier != its own canonical text", ids.clone(), "false");
            }
            let up = ids.to_ascii_uppercase();
            if up != ids && imp.id == up.as_str() {
                fault(f, "c12.eq_str", "LanguageIdentifier == a non-canonical (upper-case) text", "false", format!("true for {}", up));
            }
            let near = format!("{}-", ids);
            if imp.id == near.as_str() {
                fault(f, "c12.eq_str", "LanguageIdentifier == text with a trailing separator", "false", "true");
            }
            let cl = imp.clone();
            if cl != *imp || hash_of(&cl) != hash_of(imp) || cl.cmp(imp) != std::cmp::Ordering::Equal || cl.partial_cmp(imp) != Some(std::cmp::Ordering::Equal) {
                fault(f, "c12.reflexive", "a clone is not ==/hash-equal/Ordering::Equal", "equal", "different");
            }
        }
    }
}

// ------------------------------------------------------------------------------------------
// explorer
// ------------------------------------------------------------------------------------------

pub struct Explored {
    /// number of unique states
    pub n: u64,
    /// per state: the structural key = Debug text of the implementation value + '\u{1}' +
    /// canonical string of the model value (what de-duplication compares, exactly)
    pub keys: Vec<Box<str>>,
    /// (parent state, action index); init states have parent u32::MAX and action = init index
    pub parent: Vec<(u32, u32)>,
    pub depth: Vec<u32>,
    pub transitions: u64,
    pub self_loops: u64,
    /// successor states that violated a per-state invariant (reported, not explored further)
    pub pruned: u64,
    pub max_depth: u32,
    pub levels: Vec<u64>,
    /// (state index the fault was observed at or from, optional action index, fault)
    pub faults: Vec<(u32, Option<u32>, Fault)>,
    /// family -> (calls, Ok/true results, false results, Err results, disabled)
    pub per_action: BTreeMap<&'static str, [u64; 5]>,
    pub distinct_models: u64,
    /// live values kept on request (C12): all of them up to the cap, an evenly thinned
    /// subset (every 2^k-th state in BFS order) above it
    pub kept: Vec<St>,
    pub kept_stride: u64,
    pub wall: f64,
}

impl Explored {
    pub fn path(&self, h: &Harness, mut i: u32) -> (String, Vec<String>) {
        let mut ops = vec![];
        loop {
            let (p, a) = self.parent[i as usize];
            if p == u32::MAX {
                ops.reverse();
                return (h.inits[a as usize].0.clone(), ops);
            }
            ops.push(h.menu[a as usize].to_string());
            i = p;
        }
    }
    /// canonical string of the model value of state i
    pub fn model_text(&self, i: u32) -> &str {
        let k = &self.keys[i as usize];
        k.rsplit('\u{1}').next().unwrap_or("")
    }
}

/// The structural key of a state.  Debug text of the implementation value is injective on its
/// structure (every field is printed) and does not go through the library's own Eq/Hash; the
/// canonical string of the model value is injective on model values (asserted when a state is
/// materialised: re-reading it gives the same model).
pub fn state_key(st: &St) -> String {
    format!("{:?}\u{1}{}", st.imp, st.model.canon())
}

fn fnv(s: &str) -> u64 {
    let mut h: u64 = 0xcbf29ce484222325;
    for b in s.bytes() {
        h ^= b as u64;
        h = h.wrapping_mul(0x100000001b3);
    }
    // a final mix so that the low bits are usable by the hash map
    h ^ (h >> 29)
}

/// exact set of structural keys: 64-bit hash -> state index, verified against the stored key;
/// colliding keys go to an overflow map
struct KeyIndex {
    by_hash: HashMap<u64, u32>,
    overflow: HashMap<Box<str>, u32>,
}

impl KeyIndex {
    fn new() -> Self {
        KeyIndex { by_hash: HashMap::new(), overflow: HashMap::new() }
    }
    fn get(&self, keys: &[Box<str>], h: u64, key: &str) -> Option<u32> {
        match self.by_hash.get(&h) {
            Some(i) if &*keys[*i as usize] == key => Some(*i),
            Some(_) => self.overflow.get(key).copied(),
            None => None,
        }
    }
    fn insert(&mut self, h: u64, key: &str, i: u32) {
        if self.by_hash.contains_key(&h) {
            self.overflow.insert(key.into(), i);
        } else {
            self.by_hash.insert(h, i);
        }
    }
}

/// a state first met in the level being built: the smallest (parent, action) that produces it
/// is retained, so that numbering, paths and fault attribution do not depend on scheduling
enum NewState {
    Good(u32, u32, St),
    /// violates a per-state invariant: reported once, never explored
    Faulty(u32, u32, Vec<Fault>),
}

struct ChunkOut {
    faults: Vec<(u32, Option<u32>, Fault)>,
    transitions: u64,
    self_loops: u64,
    per_action: BTreeMap<&'static str, [u64; 5]>,
}

/// Level-synchronised BFS to exhaustion.  Only the current and the next level are held as live
/// values; every older state is represented by its structural key (about half a kilobyte).
pub fn explore(ctx: &Ctx, h: &Harness, state_cap: usize, keep_values: usize) -> Result<Explored, String> {
    let t0 = std::time::Instant::now();
    let mut keys: Vec<Box<str>> = vec![];
    let mut parent: Vec<(u32, u32)> = vec![];
    let mut depth: Vec<u32> = vec![];
    let mut index = KeyIndex::new();
    // route table (C12): model canonical string -> first state that had it
    let mut by_model = KeyIndex::new();
    let mut model_keys: Vec<Box<str>> = vec![]; // distinct model strings, indexed by by_model's values
    let mut model_first: Vec<u32> = vec![];
    let mut faults: Vec<(u32, Option<u32>, Fault)> = vec![];
    let mut per_action: BTreeMap<&'static str, [u64; 5]> = BTreeMap::new();
    let mut transitions = 0u64;
    let mut self_loops = 0u64;
    let mut pruned = 0u64;
    let mut levels = vec![];
    let mut kept: Vec<St> = vec![];
    let mut kept_stride = 1u64;

    let mut frontier: Vec<St> = vec![];
    let mut next_frontier: Vec<St> = vec![];

    macro_rules! add_state {
        ($st:expr, $key:expr, $hash:expr, $par:expr, $d:expr, $target:expr) => {{
            let st: St = $st;
            let key: String = $key;
            let i = keys.len() as u32;
            // route independence: the same model value with a different representation
            let mtext = st.model.canon();
            let mh = fnv(&mtext);
            match by_model.get(&model_keys, mh, &mtext) {
                Some(mi) => {
                    let j = model_first[mi as usize];
                    faults.push((i, None, Fault {
                        sub: "c12.route",
                        class: "the same logical value reached along two routes has two representations".into(),
                        expected: format!("the representation of state #{}: {}", j, keys[j as usize].split('\u{1}').next().unwrap_or("")),
                        observed: format!("{:?}", st.imp),
                    }));
                }
                None => {
                    let mi = model_keys.len() as u32;
                    by_model.insert(mh, &mtext, mi);
                    model_keys.push(mtext.into_boxed_str());
                    model_first.push(i);
                }
            }
            index.insert($hash, &key, i);
            keys.push(key.into_boxed_str());
            parent.push($par);
            depth.push($d);
            if keep_values > 0 && (i as u64) % kept_stride == 0 {
                kept.push(st.clone());
                if kept.len() > 2 * keep_values {
                    // thin out: keep every other one, double the stride
                    let mut k = 0usize;
                    kept.retain(|_| {
                        k += 1;
                        k % 2 == 1
                    });
                    kept_stride *= 2;
                }
            }
            $target.push(st);
        }};
    }

    for (k, (_, st)) in h.inits.iter().enumerate() {
        let key = state_key(st);
        let hsh = fnv(&key);
        if index.get(&keys, hsh, &key).is_none() {
            add_state!(st.clone(), key, hsh, (u32::MAX, k as u32), 0, frontier);
        }
    }
    let mut lo = 0usize;
    let mut level = 0u32;
    const CHUNK: usize = 128;
    while !frontier.is_empty() {
        let hi = lo + frontier.len();
        levels.push(frontier.len() as u64);
        let nchunks = (frontier.len() + CHUNK - 1) / CHUNK;
        let outs: Vec<Mutex<Option<ChunkOut>>> = (0..nchunks).map(|_| Mutex::new(None)).collect();
        let next = AtomicUsize::new(0);
        const SHARDS: usize = 256;
        let level_new: Vec<Mutex<HashMap<String, NewState>>> = (0..SHARDS).map(|_| Mutex::new(HashMap::new())).collect();
        {
            let frontier_ref = &frontier;
            let keys_ref = &keys;
            let index_ref = &index;
            std::thread::scope(|s| {
                for _ in 0..ctx.threads.max(1).min(nchunks.max(1)) {
                    s.spawn(|| loop {
                        let c = next.fetch_add(1, Ordering::Relaxed);
                        if c >= nchunks {
                            break;
                        }
                        let a = c * CHUNK;
                        let b = (a + CHUNK).min(frontier_ref.len());
                        let mut out = ChunkOut { faults: vec![], transitions: 0, self_loops: 0, per_action: BTreeMap::new() };
                        let mut fl = vec![];
                        for fi in a..b {
                            let st = &frontier_ref[fi];
                            let i = (lo + fi) as u32;
                            if level == 0 {
                                // initial states are checked here; every other state was checked when
                                // it was generated
                                h.check(st, &mut fl);
                                for x in fl.drain(..) {
                                    out.faults.push((i, None, x));
                                }
                            }
                            for (ai, act) in h.menu.iter().enumerate() {
                                let e = out.per_action.entry(act.family()).or_insert([0; 5]);
                                match h.step(st, act, &mut fl) {
                                    None => e[4] += 1,
                                    Some((ns, ret)) => {
                                        e[0] += 1;
                                        match ret {
                                            Ret::Unit | Ret::Bool(true) | Ret::AnyBool => e[1] += 1,
                                            Ret::Bool(false) => e[2] += 1,
                                            Ret::Err => e[3] += 1,
                                        }
                                        out.transitions += 1;
                                        if ns == *st && format!("{:?}", ns.imp) == format!("{:?}", st.imp) {
                                            out.self_loops += 1;
                                        } else {
                                            let key = state_key(&ns);
                                            let hsh = fnv(&key);
                                            if index_ref.get(keys_ref, hsh, &key).is_none() {
                                                // a state not seen in earlier levels.  The per-state
                                                // invariants are evaluated once per new state; a state that
                                                // violates one is reported and NOT explored further (its
                                                // futures are not model states any more, and a value that has
                                                // left the model -- e.g. a list that keeps growing -- would
                                                // make the search infinite).
                                                let shard = &level_new[(hsh >> 7) as usize % SHARDS];
                                                let mut g = shard.lock().unwrap();
                                                match g.get_mut(&key) {
                                                    Some(NewState::Good(p, a, _)) | Some(NewState::Faulty(p, a, _)) => {
                                                        if (i, ai as u32) < (*p, *a) {
                                                            *p = i;
                                                            *a = ai as u32;
                                                        }
                                                    }
                                                    None => {
                                                        drop(g);
                                                        let mut cf = vec![];
                                                        h.check(&ns, &mut cf);
                                                        let mut g = shard.lock().unwrap();
                                                        match g.get_mut(&key) {
                                                            Some(NewState::Good(p, a, _)) | Some(NewState::Faulty(p, a, _)) => {
                                                                if (i, ai as u32) < (*p, *a) {
                                                                    *p = i;
                                                                    *a = ai as u32;
                                                                }
                                                            }
                                                            None => {
                                                                let v = if cf.is_empty() { NewState::Good(i, ai as u32, ns) } else { NewState::Faulty(i, ai as u32, cf) };
                                                                g.insert(key, v);
                                                            }
                                                        }
                                                    }
                                                }
                                            }
                                        }
                                    }
                                }
                                for x in fl.drain(..) {
                                    out.faults.push((i, Some(ai as u32), x));
                                }
                            }
                        }
                        *outs[c].lock().unwrap() = Some(out);
                    });
                }
            });
        }
        // deterministic merge: per-transition results in chunk order, new states in the order of
        // the smallest (parent, action) that produces them
        for o in outs {
            let out = o.into_inner().unwrap().expect("chunk result");
            transitions += out.transitions;
            self_loops += out.self_loops;
            faults.extend(out.faults);
            for (k, v) in out.per_action {
                let e = per_action.entry(k).or_insert([0; 5]);
                for j in 0..5 {
                    e[j] += v[j];
                }
            }
        }
        let mut fresh: Vec<(u32, u32, String, NewState)> = vec![];
        for shard in level_new {
            for (key, v) in shard.into_inner().unwrap() {
                let (p, a) = match &v {
                    NewState::Good(p, a, _) | NewState::Faulty(p, a, _) => (*p, *a),
                };
                fresh.push((p, a, key, v));
            }
        }
        fresh.sort_by(|x, y| (x.0, x.1).cmp(&(y.0, y.1)).then_with(|| x.2.cmp(&y.2)));
        for (p, a, key, v) in fresh {
            match v {
                NewState::Good(_, _, st) => {
                    let hsh = fnv(&key);
                    add_state!(st, key, hsh, (p, a), level + 1, next_frontier);
                }
                NewState::Faulty(_, _, fs) => {
                    pruned += 1;
                    for f in fs {
                        faults.push((p, Some(a), f));
                    }
                }
            }
        }
        if keys.len() > state_cap {
            return Err(format!("harness {}: state cap {} exceeded at depth {} (the harness is meant to be finite and explored to exhaustion)", h.name, state_cap, level + 1));
        }
        lo = hi;
        level += 1;
        frontier = std::mem::take(&mut next_frontier);
    }
    let max_depth = depth.iter().copied().max().unwrap_or(0);
    Ok(Explored {
        n: keys.len() as u64,
        keys,
        parent,
        depth,
        transitions,
        self_loops,
        pruned,
        max_depth,
        levels,
        faults,
        per_action,
        distinct_models: model_keys.len() as u64,
        kept,
        kept_stride,
        wall: t0.elapsed().as_secs_f64(),
    })
}

// ------------------------------------------------------------------------------------------
// stateright cross-validation of the explorer
// ------------------------------------------------------------------------------------------

pub struct SrModel {
    pub h: std::sync::Arc<Harness>,
}

impl stateright::Model for SrModel {
    type State = St;
    type Action = u32;
    fn init_states(&self) -> Vec<St> {
        self.h.inits.iter().map(|x| x.1.clone()).collect()
    }
    fn actions(&self, _s: &St, out: &mut Vec<u32>) {
        out.extend(0..self.h.menu.len() as u32);
    }
    fn next_state(&self, s: &St, a: u32) -> Option<St> {
        let mut sink = vec![];
        let ns = self.h.step(s, &self.h.menu[a as usize], &mut sink).map(|x| x.0)?;
        if ns != *s {
            // same pruning as the own explorer: a violating successor is not a state
            let mut f = vec![];
            self.h.check(&ns, &mut f);
            if !f.is_empty() {
                return None;
            }
        }
        Some(ns)
    }
    fn properties(&self) -> Vec<stateright::Property<Self>> {
        vec![stateright::Property::always("explored", |_, _| true)]
    }
}

/// unique states / generated states / max depth as reported by stateright's BFS
pub fn stateright_counts(ctx: &Ctx, h: &std::sync::Arc<Harness>) -> (u64, u64, u64) {
    use stateright::{Checker, Model};
    let c = SrModel { h: h.clone() }.checker().threads(ctx.threads.max(1)).spawn_bfs().join();
    (c.unique_state_count() as u64, c.state_count() as u64, c.max_depth() as u64)
}

// ------------------------------------------------------------------------------------------
// harness definitions (DESIGN §4 C10)
// ------------------------------------------------------------------------------------------

// (`zaa` / `aaz`, `za` / `az`: order hazards -- lexicographic and integer order differ, see
// spaces::ORDER_VARIANTS)
const ATTRS: [S; 9] = ["abc", "ABD", "zzz9", "mmm", "ab", "toolong99", "a-b", "zaa", "aaz"];
const KEYS: [S; 5] = ["ca", "NU", "1a", "c1", "c"];
const TKEYS: [S; 4] = ["h0", "K1", "ca", "0h"];
const TAGS: [S; 8] = ["a", "B", "zz", "", "toolong99", "a*", "za", "az"];
const VARS: [S; 3] = ["valencia", "1996", "fonipa"];

fn value_lists() -> Vec<Vec<S>> {
    vec![
        vec![],
        vec!["foo"],
        vec!["BAR", "foo"],
        vec!["foo", "bar"],
        vec!["true"],
        vec!["foo", "true"],
        vec!["TRUE", "foo", "true"],
        vec!["x"],
        vec!["foo", "toolong999"],
        vec!["fo\0"],
        vec!["zaa", "aaz"],
    ]
}

fn probes() -> Probes {
    Probes { attrs: ATTRS.to_vec(), keys: KEYS.to_vec(), tkeys: TKEYS.to_vec(), tags: TAGS.to_vec(), variants: VARS.to_vec() }
}

fn variant_lists(max_len: usize, alphabet: &[S]) -> Vec<Vec<S>> {
    let mut out: Vec<Vec<S>> = vec![vec![]];
    let mut level: Vec<Vec<S>> = vec![vec![]];
    for _ in 0..max_len {
        let mut next = vec![];
        for l in &level {
            for a in alphabet {
                let mut x = l.clone();
                x.push(*a);
                next.push(x);
            }
        }
        out.extend(next.iter().cloned());
        level = next;
    }
    out
}

fn id_menu(thorough: bool) -> Vec<Act> {
    // (`UND` / `Und`: other spellings of the absent language -- the same state as `und`)
    let mut m = vec![Act::SetLanguage("en"), Act::SetLanguage("ZH"), Act::SetLanguage("und"), Act::SetLanguage("UND"), Act::SetLanguage("Und"), Act::ClearLanguage];
    if thorough {
        m.push(Act::SetLanguage("sr"));
    }
    m.extend([Act::SetScript(None), Act::SetScript(Some("Latn")), Act::SetScript(Some("hANT"))]);
    m.extend([Act::SetRegion(None), Act::SetRegion(Some("us")), Act::SetRegion(Some("TW"))]);
    if thorough {
        m.push(Act::SetRegion(Some("419")));
        m.push(Act::SetScript(Some("Cyrl")));
    }
    let alpha: &[S] = if thorough { &["valencia", "1996", "FONIPA"] } else { &["valencia", "1996"] };
    for l in variant_lists(if thorough { 3 } else { 2 }, alpha) {
        m.push(Act::SetVariants(l));
    }
    if !thorough {
        // one list of three with a non-adjacent duplicate (sort/dedup order matters only there)
        m.push(Act::SetVariants(vec!["valencia", "1996", "valencia"]));
    }
    // order hazards (lexicographic vs integer vs length-first order)
    m.push(Act::SetVariants(vec!["zaaaa", "aaaaz"]));
    m.push(Act::SetVariants(vec!["aaaaz", "bbbbbb", "zaaaa", "9aaa", "1zzz"]));
    // lists as long as what a receiver already holds (3 and 5 here), with a non-adjacent repeat
    m.push(Act::SetVariants(vec!["valencia", "1996", "fonipa"]));
    m.push(Act::SetVariants(vec!["fonipa", "valencia", "fonipa"]));
    m.push(Act::SetVariants(vec!["aaaaz", "bbbbbb", "aaaaz", "9aaa", "1zzz"]));
    m.push(Act::ClearVariants);
    // Clone::clone_from and mem::take are public mutations too (sources made of menu values)
    // (every source is a value of this menu or an initial state: no new states, new transitions)
    m.push(Act::CloneIdFrom("zh-Hant-TW-1996-valencia"));
    m.push(Act::CloneIdFrom("und"));
    m.push(Act::CloneFrom(INIT_FULL));
    m.push(Act::TakeAndRestore);
    #[cfg(feature = "likelysubtags")]
    {
        m.push(Act::Maximize);
        m.push(Act::Minimize);
    }
    m
}

fn u_menu(thorough: bool) -> Vec<Act> {
    let mut m = vec![];
    if thorough {
        for a in ["q1q1q1q1", "AAA"] {
            m.push(Act::SetAttr(a));
            m.push(Act::RemoveAttr(a));
        }
        m.push(Act::SetKeyword("kf", vec!["upper"]));
        m.push(Act::SetKeyword("KF", vec!["a1b2c3d4", "true", "zzz"]));
        m.push(Act::RemoveKeyword("kf"));
    }
    for a in ATTRS {
        m.push(Act::SetAttr(a));
        m.push(Act::RemoveAttr(a));
    }
    m.push(Act::ClearAttrs);
    for k in KEYS {
        for v in value_lists() {
            m.push(Act::SetKeyword(k, v));
        }
        m.push(Act::RemoveKeyword(k));
    }
    m.push(Act::ClearKeywords);
    m.push(Act::ResetUnicode);
    // Clone::clone_from with an initial state as the source (no new states): the destination
    // shares keys with the source (`ca`, attribute `abc`) with other values in most states
    m.push(Act::CloneFrom(INIT_FULL));
    m.push(Act::CloneFrom("en-u-ca-true"));
    m.push(Act::CloneFrom("und-u-abc-zzz9"));
    m.push(Act::TakeAndRestore);
    m
}

fn t_menu(thorough: bool) -> Vec<Act> {
    let mut m = vec![];
    if thorough {
        m.push(Act::SetTfield("s0", vec!["ascii"]));
        m.push(Act::SetTfield("S0", vec!["true", "a1b2c3d4"]));
        m.push(Act::RemoveTfield("s0"));
        m.push(Act::SetTlang("abcdefgh-Cyrl-419-fonipa-1abc"));
    }
    for s in ["en", "und", "UND", "Und-latn", "und-Latn", "EN_latn-us-1996", "de-valencia-1996", "abcdefgh", "abcde-001", "yue"] {
        m.push(Act::SetTlang(s));
    }
    m.push(Act::ClearTlang);
    for k in TKEYS {
        for v in value_lists() {
            m.push(Act::SetTfield(k, v));
        }
        m.push(Act::RemoveTfield(k));
    }
    m.push(Act::ClearTfields);
    m.push(Act::CloneFrom(INIT_FULL));
    m.push(Act::CloneFrom("zh-t-und-latn-k1-bar-foo"));
    m.push(Act::CloneFrom("en-t-h0-true"));
    m.push(Act::TakeAndRestore);
    m
}

fn x_menu(thorough: bool) -> Vec<Act> {
    let mut m = vec![];
    if thorough {
        for t in ["12345678", "0"] {
            m.push(Act::AddTag(t));
            m.push(Act::RemoveTag(t));
        }
    }
    for t in TAGS {
        m.push(Act::AddTag(t));
        m.push(Act::RemoveTag(t));
    }
    m.push(Act::ClearTags);
    m.push(Act::CloneFrom(INIT_FULL));
    m.push(Act::CloneFrom("en-x-zz-a"));
    m.push(Act::TakeAndRestore);
    m
}

const INIT_FULL: S = "en-Latn-US-1996-valencia-t-de-h0-hybrid-u-abc-ca-buddhist-x-a-zz";

pub fn parsed_inits() -> Vec<(String, St)> {
    [
        INIT_FULL,
        "und-u-abc-zzz9",
        "zh-t-und-latn-k1-bar-foo",
        "en-x-zz-a",
        "en-u-ca-true",
        "en-t-h0-true",
    ]
    .iter()
    .filter_map(|s| try_parse_state(s).ok().map(|st| (format!("parse({})", s), st)))
    .collect()
}

/// every harness, with the large cross harness (C10 quick; riders in the thorough tier)
pub const ALL_LARGE: [&str; 5] = ["H-id", "H-u", "H-t", "H-x", "H-cross"];
/// every harness, with the extra-large cross harness (C10 thorough)
pub const ALL_XL: [&str; 5] = ["H-id", "H-u", "H-t", "H-x", "H-cross-xl"];
/// every harness, with the small cross harness (quick tier of the properties that ride on E3)
pub const ALL_SMALL: [&str; 5] = ["H-id", "H-u", "H-t", "H-x", "H-cross-s"];
pub fn std_set(ctx: &Ctx) -> &'static [&'static str] {
    if ctx.quick() {
        &ALL_SMALL
    } else {
        &ALL_LARGE
    }
}

pub fn harnesses(ctx: &Ctx, which: &[&str]) -> Vec<std::sync::Arc<Harness>> {
    let thorough = !ctx.quick();
    let likely = if cfg!(feature = "likelysubtags") { Some(std::sync::Arc::new(LikelyCtx::new(&ctx.repo))) } else { None };
    let mut inits = vec![("default".to_string(), default_state())];
    inits.extend(parsed_inits());
    let mut out = vec![];
    let want = |n: &str| which.contains(&n);
    if want("H-id") {
        out.push(std::sync::Arc::new(Harness { name: "H-id", inits: inits.clone(), menu: id_menu(thorough), probes: probes(), tag_cap: 3, likely: likely.clone() }));
    }
    if want("H-u") {
        out.push(std::sync::Arc::new(Harness { name: "H-u", inits: inits.clone(), menu: u_menu(thorough), probes: probes(), tag_cap: 3, likely: likely.clone() }));
    }
    if want("H-t") {
        out.push(std::sync::Arc::new(Harness { name: "H-t", inits: inits.clone(), menu: t_menu(thorough), probes: probes(), tag_cap: 3, likely: likely.clone() }));
    }
    if want("H-x") {
        out.push(std::sync::Arc::new(Harness { name: "H-x", inits: inits.clone(), menu: x_menu(thorough), probes: probes(), tag_cap: if thorough { 5 } else { 4 }, likely: likely.clone() }));
    }
    // three sizes of the cross harness: -s (27 648 states: quick tier of the properties that ride
    // on E3), plain (248 832: C10 quick, riders in the thorough tier), -xl (7.0e6: C10 thorough)
    for (hname, large, xl) in [("H-cross", true, false), ("H-cross-s", false, false), ("H-cross-xl", true, true)] {
        if !which.contains(&hname) {
            continue;
        }
        // two values per component, all components in one Locale, plus the conversions and
        // whole-field assignments
        let mut m = vec![
            Act::SetLanguage("en"), Act::SetLanguage("und"), Act::SetLanguage("uND"), Act::ClearLanguage,
            Act::SetScript(None), Act::SetScript(Some("Latn")),
            Act::SetRegion(None), Act::SetRegion(Some("US")),
            Act::SetVariants(vec!["valencia"]), Act::SetVariants(vec!["valencia", "1996", "valencia"]), Act::SetVariants(vec![]), Act::ClearVariants,
            Act::SetAttr("abc"), Act::SetAttr("ABD"), Act::RemoveAttr("abc"), Act::RemoveAttr("abd"), Act::SetAttr("ab"), Act::ClearAttrs,
            Act::SetKeyword("ca", vec!["foo"]), Act::SetKeyword("NU", vec!["true"]), Act::SetKeyword("ca", vec!["x"]),
            Act::RemoveKeyword("ca"), Act::RemoveKeyword("nu"), Act::ClearKeywords,
            Act::SetTlang("de"), Act::SetTlang("und-Latn"), Act::ClearTlang,
            Act::SetTfield("h0", vec!["hybrid"]), Act::SetTfield("K1", vec!["true"]), Act::SetTfield("ca", vec!["foo"]),
            Act::RemoveTfield("h0"), Act::RemoveTfield("k1"), Act::ClearTfields,
            Act::AddTag("a"), Act::AddTag("ZZ"), Act::AddTag(""), Act::RemoveTag("a"), Act::RemoveTag("zz"), Act::ClearTags,
            Act::ViaLangId,
            Act::SetId("en-Latn-US-valencia"), Act::SetId("und"), Act::SetId("UND"),
            Act::SetExtensions(""), Act::SetExtensions("-t-de-h0-hybrid-u-abc-ca-foo-x-a"), Act::SetExtensions("u-nu"),
            Act::ResetUnicode,
            // clone_from with sources made of component values of this menu: destination and
            // source share keys with different values in many of the states
            // (the sources are the initial state and menu values: no new states)
            Act::CloneFrom("en-Latn-US-valencia-t-de-h0-hybrid-u-abc-ca-foo-x-a"),
            Act::CloneFrom("und"),
            Act::CloneExtFrom("-t-de-h0-hybrid-u-abc-ca-foo-x-a"),
            Act::CloneExtFrom("u-nu"),
            Act::CloneIdFrom("en-Latn-US-valencia"),
            Act::TakeAndRestore,
        ];
        #[cfg(feature = "likelysubtags")]
        {
            m.push(Act::Maximize);
            m.push(Act::Minimize);
        }
        if large {
            m.extend([Act::SetRegion(Some("GB")), Act::SetAttr("zzz9"), Act::RemoveAttr("ZZZ9"), Act::SetKeyword("1a", vec!["bar", "foo"]), Act::RemoveKeyword("1a"), Act::SetTfield("h0", vec!["foo", "bar"])]);
        }
        if xl {
            m.extend([Act::SetScript(Some("Arab")), Act::SetLanguage("ar"), Act::AddTag("m"), Act::RemoveTag("M"), Act::SetTlang("en-Latn-US-1996"), Act::SetVariants(vec!["fonipa", "1996"])]);
        }
        let mut ci = vec![("default".to_string(), default_state())];
        if let Ok(st) = try_parse_state("en-Latn-US-valencia-t-de-h0-hybrid-u-abc-ca-foo-x-a") {
            ci.push(("parse(en-Latn-US-valencia-t-de-h0-hybrid-u-abc-ca-foo-x-a)".to_string(), st));
        }
        out.push(std::sync::Arc::new(Harness { name: hname, inits: ci, menu: m, probes: probes(), tag_cap: if xl { 3 } else { 2 }, likely: likely.clone() }));
    }
    out
}

// ------------------------------------------------------------------------------------------
// running harnesses for a property
// ------------------------------------------------------------------------------------------

pub fn rss_mib() -> u64 {
    std::fs::read_to_string("/proc/self/status")
        .ok()
        .and_then(|t| t.lines().find(|l| l.starts_with("VmRSS:")).and_then(|l| l.split_whitespace().nth(1).and_then(|x| x.parse::<u64>().ok())))
        .map(|kb| kb / 1024)
        .unwrap_or(0)
}

pub struct E3Summary {
    pub states: u64,
    pub transitions: u64,
    pub distinct_models: u64,
    pub json: Value,
    pub samples: Vec<Value>,
    /// all distinct implementation values met (for the C12 pair checks)
    pub values: Vec<St>,
}

/// Explores the named harnesses, pushes the faults whose sub-check starts with one of
/// `prefixes` into the collector, and returns coverage numbers.
pub fn run_harnesses(ctx: &Ctx, which: &[&str], prefixes: &[&str], rep: &mut Report, keep_values: bool) -> E3Summary {
    let hs = harnesses(ctx, which);
    let mut sum = E3Summary { states: 0, transitions: 0, distinct_models: 0, json: json!({}), samples: vec![], values: vec![] };
    let cap = if ctx.quick() { 3_000_000 } else { 40_000_000 };
    let keep_cap = if ctx.quick() { 300_000 } else { 600_000 };
    for h in &hs {
        let ex = match explore(ctx, h, cap, if keep_values { keep_cap } else { 0 }) {
            Ok(e) => e,
            Err(e) => {
                rep.engine_failures.push(e);
                continue;
            }
        };
        let n = ex.n;
        sum.states += n;
        sum.transitions += ex.transitions;
        sum.distinct_models += ex.distinct_models;
        // faults -> violations (smallest state index first = shortest path first)
        let mut kept = 0u64;
        for (i, ai, f) in &ex.faults {
            if !prefixes.iter().any(|p| f.sub.starts_with(p)) {
                continue;
            }
            kept += 1;
            let (init, mut ops) = ex.path(h, *i);
            if let Some(ai) = ai {
                ops.push(h.menu[*ai as usize].to_string());
            }
            rep.collector.push(
                ((ex.depth[*i as usize] as u64) << 40) | *i as u64,
                Violation {
                    sub: f.sub,
                    class: format!("[{}] {}", h.name, f.class),
                    case: Case::Ops { harness: h.name.to_string(), init, ops },
                    expected: f.expected.clone(),
                    observed: f.observed.clone(),
                },
            );
        }
        // vacuity guards
        let mut never_ok = vec![];
        for (fam, c) in &ex.per_action {
            if c[1] + c[2] == 0 {
                never_ok.push(*fam);
            }
        }
        if !never_ok.is_empty() {
            rep.engine_failures.push(format!("vacuity guard: harness {}: action families never succeeded: {:?}", h.name, never_ok));
        }
        if n < 10 || ex.distinct_models < 10 {
            rep.engine_failures.push(format!("vacuity guard: harness {} explored only {} states", h.name, n));
        }
        let rss_own = rss_mib();
        // engine cross-validation: stateright must find the same number of unique states
        let sr = if n <= 100_000 || !ctx.quick() {
            let c = stateright_counts(ctx, h);
            if c.0 != n {
                rep.engine_failures.push(format!("explorer cross-validation: harness {}: own BFS found {} unique states, stateright {}", h.name, n, c.0));
            }
            json!({"unique_states": c.0, "states_generated": c.1, "max_depth": c.2})
        } else {
            json!("skipped in the quick tier for this harness (more than 100000 states; cross-counted in the thorough tier)")
        };
        let pa: BTreeMap<String, Value> = ex
            .per_action
            .iter()
            .map(|(k, c)| (k.to_string(), json!({"calls": c[0], "ok_or_true": c[1], "false": c[2], "err": c[3], "disabled": c[4]})))
            .collect();
        sum.json[h.name] = json!({
            "unique_states": n, "transitions": ex.transitions, "self_loops": ex.self_loops, "violating_successors_not_explored": ex.pruned, "max_depth": ex.max_depth,
            "states_per_level": ex.levels, "distinct_model_values": ex.distinct_models, "init_states": h.inits.len(),
            "actions_in_menu": h.menu.len(), "faults_recorded_all_properties": ex.faults.len(), "faults_of_this_property": kept,
            "per_action": pa, "stateright_bfs": sr, "explored_to_exhaustion": true, "wall_s": (ex.wall * 100.0).round() / 100.0,
            "process_rss_mib_after_own_bfs": rss_own, "process_rss_mib_after_stateright": rss_mib(),
        });
        // samples: the deepest state's path, and one mid-depth path
        if n > 0 {
            let deepest = (0..n as u32).max_by_key(|i| ex.depth[*i as usize]).unwrap();
            for i in [deepest, (n / 2) as u32] {
                let (init, ops) = ex.path(h, i);
                sum.samples.push(json!({"harness": h.name, "init": init, "ops": ops, "reaches": ex.model_text(i)}));
            }
        }
        if keep_values {
            sum.values.extend(ex.kept.iter().cloned());
            sum.json[h.name]["values_kept_for_pair_checks"] = json!({"kept": ex.kept.len(), "every_nth_state": ex.kept_stride});
        }
    }
    sum
}

/// Re-executes a recorded history; returns the faults it produces (all sub-checks).
pub fn replay_ops(ctx: &Ctx, harness: &str, init: &str, ops: &[String]) -> Result<Vec<Fault>, String> {
    // both tiers' menus are searched (the thorough menu is a superset)
    let mut c2 = ctx.clone();
    c2.tier = Tier::Thorough;
    let hs = harnesses(&c2, &[harness]);
    let h = hs.first().ok_or_else(|| format!("unknown harness {}", harness))?;
    let mut st = h.inits.iter().find(|x| x.0 == init).ok_or_else(|| format!("unknown init {}", init))?.1.clone();
    let mut faults = vec![];
    h.check(&st, &mut faults);
    let mut seen_models: Vec<St> = vec![st.clone()];
    for op in ops {
        let a = h.menu.iter().find(|a| a.to_string() == *op).ok_or_else(|| format!("unknown action {}", op))?;
        match h.step(&st, a, &mut faults) {
            Some((ns, _)) => {
                st = ns;
                h.check(&st, &mut faults);
                // route check along this single history
                if let Some(prev) = seen_models.iter().find(|p| p.model == st.model && p.imp != st.imp) {
                    fault(&mut faults, "c12.route", "the same logical value reached along two routes has two representations", format!("{:?}", prev.imp), format!("{:?}", st.imp));
                }
                seen_models.push(st.clone());
            }
            None => break,
        }
    }
    // the route oracle also compares with the value built by the shortest route: parsing
    if let Ok(p) = Locale::from_str(&st.model.canon()) {
        if p != st.imp && !faults.iter().any(|f| f.sub == "c12.route") {
            fault(&mut faults, "c12.route", "the same logical value reached along two routes has two representations", format!("{:?}", p), format!("{:?}", st.imp));
        }
    }
    Ok(faults)
}

// ------------------------------------------------------------------------------------------
// property entry points that are decided by E3 alone
// ------------------------------------------------------------------------------------------

pub fn fill_report(rep: &mut Report, sum: &E3Summary, what: &str) {
    rep.states += sum.states;
    rep.transitions += sum.transitions;
    rep.traces += sum.transitions;
    rep.evaluations += sum.transitions;
    rep.distinct_nontrivial += sum.distinct_models;
    rep.samples.extend(sum.samples.iter().cloned());
    rep.extra.insert("E3".into(), sum.json.clone());
    rep.extra.insert("E3_note".into(), json!(format!(
        "{}; states = unique (implementation value, model value) pairs, de-duplicated on full equality; transitions = public calls executed on the real value with the model in lock-step (every one is a model step validated against the implementation); each harness is explored to exhaustion (no depth cap) by a level-synchronised BFS and re-counted with stateright's BFS", what)));
}

pub fn run_c10(ctx: &Ctx) -> Report {
    let mut rep = Report::new();
    let sum = run_harnesses(ctx, if ctx.quick() { &ALL_LARGE } else { &ALL_XL }, &["c10."], &mut rep, false);
    super::counts::run_count_histories(ctx, &mut rep, &["c10."]);
    fill_report(&mut rep, &sum, "C10 histories");
    super::args::run_arg_sweep(ctx, &mut rep, true);
    #[cfg(feature = "likelysubtags")]
    super::conc::run_family(ctx, "mutate", "c10.schedule", &mut rep);
    rep.rule = "E3: every state reachable from default() and from six parser-built values under the menus of five harnesses (H-id, H-u, H-t, H-x, H-cross: every public mutator with valid, boundary and invalid arguments); after every call the result (Ok/Err/bool) is compared with the set/map model and an Err must leave the value unchanged; in every state every getter, is_empty, has_*, to_string and a re-parse are compared with the model. E4 (arguments): every byte string of length <= 2 and every boundary-class string up to length 9 as the textual argument of every getter/setter, compared with the model's validation and normalisation. distinct_nontrivial = distinct model values reached.".into();
    rep.assumptions = vec![
        "reference value model of DESIGN §3.2 (sorted sets, sorted multiset, ordered maps)".into(),
        "argument menus are finite; private-use multiset capped (see tag_cap); longer lists are outside the bound".into(),
    ];
    rep
}

//! C11 — matches(): complete enumeration of a product domain of identifiers (E4).

use crate::engine::*;
use crate::obs::langid_from_model;
use refmodel::{model_matches, MLangId};
use serde_json::json;
use unic_langid_impl::LanguageIdentifier;
use unic_locale_impl::Locale;

pub fn domain() -> Vec<MLangId> {
    let langs = [None, Some("en"), Some("fr"), Some("zh")];
    let scripts = [None, Some("Latn"), Some("Cyrl"), Some("Hant")];
    let regions = [None, Some("US"), Some("001"), Some("FR")];
    let variants: [&[&str]; 6] = [&[], &["valencia"], &["1996"], &["1996", "valencia"], &["fonipa"], &["1996", "fonipa"]];
    let mut out = vec![];
    for l in langs {
        for s in scripts {
            for r in regions {
                for v in variants {
                    out.push(MLangId {
                        lang: l.map(|x| x.to_string()),
                        script: s.map(|x| x.to_string()),
                        region: r.map(|x| x.to_string()),
                        variants: v.iter().map(|x| x.to_string()).collect(),
                    });
                }
            }
        }
    }
    out
}

/// Per-field sweeps: `matches` is a conjunction of four field-wise tests, so each field is also
/// swept over a large domain of its own (all values the bundled CLDR data know, the
/// standard's special-purpose codes, unknown representatives / all sorted sub-lists of a
/// 7-variant alphabet) while the other three fields take two fixed contexts.  A defect keyed on a
/// particular code (`Zzzz`, `ZZ`, `und`-like languages) or on the inner elements of a longer
/// variant list lives here and not in the small product domain.
pub fn field_families(repo: &str, quick: bool) -> Vec<(&'static str, Vec<MLangId>)> {
    let lk = super::universe::load_likely(repo);
    let mk = |l: Option<&str>, s: Option<&str>, r: Option<&str>, v: &[&str]| MLangId {
        lang: l.map(|x| x.to_string()),
        script: s.map(|x| x.to_string()),
        region: r.map(|x| x.to_string()),
        variants: v.iter().map(|x| x.to_string()).collect(),
    };
    fn opt(s: &String) -> Option<&str> {
        if s.is_empty() { None } else { Some(s.as_str()) }
    }
    let mut out = vec![];
    // languages
    let mut langs: Vec<String> = lk.langs.iter().step_by(if quick { 5 } else { 1 }).cloned().collect();
    for w in ["", "und", "mul", "mis", "zxx", "art", "qaa", "qtz", "root", "en", "eng", "sh", "iw", "he", "in", "id", "tl", "fil", "mo", "ro", "no", "nb", "undefine", "undet"] {
        langs.push(if w == "und" { String::new() } else { w.to_string() });
    }
    langs.retain(|w| w.len() != 4);
    langs.sort();
    langs.dedup();
    let mut fam = vec![];
    for l in &langs {
        fam.push(mk(opt(l), None, None, &[]));
        fam.push(mk(opt(l), Some("Latn"), Some("US"), &["1996"]));
    }
    out.push(("language", fam));
    // scripts
    let mut scripts: Vec<String> = lk.scripts.clone();
    for w in ["", "Zzzz", "Zyyy", "Zxxx", "Zinh", "Zmth", "Zsym", "Zsye", "Qaaa", "Qabx", "Latn", "Cyrl", "Arab", "Hans", "Hant", "Hani", "Root", "True"] {
        scripts.push(w.to_string());
    }
    scripts.sort();
    scripts.dedup();
    let mut fam = vec![];
    for sc in &scripts {
        fam.push(mk(Some("sr"), opt(sc), None, &[]));
        fam.push(mk(None, opt(sc), Some("RS"), &["ekavsk"]));
    }
    out.push(("script", fam));
    // regions
    let mut regions: Vec<String> = lk.regions.clone();
    for w in ["", "ZZ", "AA", "QM", "QZ", "XA", "XK", "XZ", "QO", "EU", "UN", "EZ", "UK", "GB", "US", "001", "419", "150", "003", "999", "000"] {
        regions.push(w.to_string());
    }
    regions.sort();
    regions.dedup();
    let mut fam = vec![];
    for r in &regions {
        fam.push(mk(Some("en"), None, opt(r), &[]));
        fam.push(mk(None, Some("Latn"), opt(r), &["fonipa"]));
    }
    out.push(("region", fam));
    // variant lists: every sorted sub-list of 7 variants (lists up to length 7, so that two
    // lists can differ in an inner element only)
    let alpha = ["1994", "1996", "biske", "fonipa", "njiva", "rozaj", "valencia"];
    let mut fam = vec![];
    for mask in 0u32..(1 << alpha.len()) {
        let v: Vec<&str> = (0..alpha.len()).filter(|i| mask >> i & 1 == 1).map(|i| alpha[i]).collect();
        fam.push(mk(Some("sl"), None, None, &v));
        fam.push(mk(None, Some("Latn"), Some("IT"), &v));
    }
    out.push(("variants", fam));
    // long variant lists (count ladder, DESIGN 0.8): for every n the first n variants of a generated
    // alphabet, the same list with its first / middle / last element replaced by a variant that is
    // not in it, and without its first / last element -- every ordered pair of them, so that two
    // long lists differ in exactly one position, in length only, or not at all (a comparison
    // that changes its algorithm at a count, or that stops early, lives here)
    let va = super::counts::variant_alphabet();
    let n_max = if quick { 24 } else { 40 };
    let mut fam = vec![];
    for n in 0..=n_max {
        let base: Vec<&str> = va[..n].to_vec();
        let mut lists: Vec<Vec<&str>> = vec![base.clone()];
        if n >= 1 {
            for k in [0, n / 2, n - 1] {
                let mut x = base.clone();
                x[k] = va[n_max + 1 + k % 3];
                x.sort();
                lists.push(x);
            }
            lists.push(base[1..].to_vec());
            lists.push(base[..n - 1].to_vec());
        }
        lists.sort();
        lists.dedup();
        for v in &lists {
            fam.push(mk(Some("sl"), None, None, v));
        }
    }
    fam.sort_by_key(|m| m.canon());
    fam.dedup_by_key(|m| m.canon());
    out.push(("variant_counts", fam));
    out
}

pub const EXTS: [&str; 5] = ["", "-u-ca-buddhist", "-t-de-h0-hybrid", "-x-priv", "-t-de-u-ca-buddhist-x-priv"];
const FLAGS: [(bool, bool); 4] = [(false, false), (true, false), (false, true), (true, true)];

fn pviol(coll: &Collector, l: &Local, sub: &'static str, class: String, a: &str, b: &str, fl: (bool, bool), expected: String, observed: String) {
    coll.push(l.order, Violation { sub, class, case: Case::Text(format!("pair:{}|{}|{}|{}", a, b, fl.0, fl.1)), expected, observed });
}

pub fn check_pair(ma: &MLangId, mb: &MLangId, a: &LanguageIdentifier, b: &LanguageIdentifier, l: &mut Local, coll: &Collector) {
    let (sa, sb) = (ma.canon(), mb.canon());
    let mut res = [false; 4];
    for (i, fl) in FLAGS.iter().enumerate() {
        let want = model_matches(ma, mb, fl.0, fl.1);
        let got = match guard_total(|| a.matches(b, fl.0, fl.1)) {
            Ok(g) => g,
            Err(p) => {
                pviol(coll, l, "c11.panic", format!("matches panics: {}", p), &sa, &sb, *fl, "a bool".into(), p);
                return;
            }
        };
        res[i] = got;
        l.n += 0;
        l.counters[got as usize] += 1;
        if got != want {
            let field = first_diff_field(ma, mb);
            pviol(coll, l, "c11.formula", format!("matches differs from the field-wise formula (flags {:?}, first differing field {})", fl, field), &sa, &sb, *fl, want.to_string(), got.to_string());
        }
        // symmetric under swapping operands with their flags
        let sw = b.matches(a, fl.1, fl.0);
        if sw != got {
            pviol(coll, l, "c11.symmetry", "a.matches(b,ra,rb) != b.matches(a,rb,ra)".into(), &sa, &sb, *fl, got.to_string(), sw.to_string());
        }
        // Language::matches on the language subtags alone
        let lw = (fl.0 && ma.lang.is_none()) || (fl.1 && mb.lang.is_none()) || ma.lang == mb.lang;
        let lg = a.language.matches(b.language, fl.0, fl.1);
        let lg2 = a.language.matches(&b.language, fl.0, fl.1);
        if lg != lw || lg2 != lw {
            pviol(coll, l, "c11.language", "Language::matches differs from the formula".into(), &sa, &sb, *fl, lw.to_string(), format!("{} / {}", lg, lg2));
        }
    }
    // an empty variant list stored as Some([]) (possible through from_raw_parts_unchecked, and
    // anticipated by the library: "or is some and is empty") is an empty field: on the side
    // flagged as a range it must behave exactly like the parser's None
    if ma.variants.is_empty() {
        let raw = LanguageIdentifier::from_raw_parts_unchecked(a.language, a.script, a.region, Some(Vec::new().into_boxed_slice()));
        for rb in [false, true] {
            let (w1, g1) = (a.matches(b, true, rb), raw.matches(b, true, rb));
            let (w2, g2) = (b.matches(a, rb, true), b.matches(&raw, rb, true));
            if w1 != g1 || w2 != g2 {
                pviol(coll, l, "c11.raw_empty", "an empty variant list stored as Some([]) on the range side does not act as an empty field".into(), &sa, &sb, (true, rb), format!("{} / {}", w1, w2), format!("{} / {}", g1, g2));
            }
        }
    }
    // both flags false <=> equality
    if res[0] != (a == b) || res[0] != (ma == mb) {
        pviol(coll, l, "c11.equality", "matches(false,false) differs from ==".into(), &sa, &sb, (false, false), (ma == mb).to_string(), res[0].to_string());
    }
    // monotone in each flag
    if (res[0] && !(res[1] && res[2] && res[3])) || ((res[1] || res[2]) && !res[3]) {
        pviol(coll, l, "c11.monotone", "switching a flag on turned a match into a mismatch".into(), &sa, &sb, (true, true), "monotone".into(), format!("{:?}", res));
    }
    if ma != mb && res[3] {
        l.nontrivial += 1; // a genuine wildcard match
    }
}

fn first_diff_field(a: &MLangId, b: &MLangId) -> &'static str {
    if a.lang != b.lang {
        "language"
    } else if a.script != b.script {
        "script"
    } else if a.region != b.region {
        "region"
    } else if a.variants != b.variants {
        "variants"
    } else {
        "none"
    }
}

pub fn check_locale_pair(
    ma: &MLangId, mb: &MLangId, ea: usize, eb: usize, la: &Locale, lb: &Locale, ida: &LanguageIdentifier, l: &mut Local, coll: &Collector,
) {
    let (sa, sb) = (format!("{}{}", ma.canon(), EXTS[ea]), format!("{}{}", mb.canon(), EXTS[eb]));
    let private = EXTS[ea].contains("-x-") || EXTS[eb].contains("-x-");
    for fl in FLAGS {
        let want = !private && model_matches(ma, mb, fl.0, fl.1);
        let got = match guard_total(|| la.matches(lb, fl.0, fl.1)) {
            Ok(g) => g,
            Err(p) => {
                pviol(coll, l, "c11.panic", format!("Locale::matches panics: {}", p), &sa, &sb, fl, "a bool".into(), p);
                return;
            }
        };
        l.counters[2 + got as usize] += 1;
        if got != want {
            pviol(coll, l, "c11.locale", format!("Locale::matches differs (private tags involved: {})", private), &sa, &sb, fl, want.to_string(), got.to_string());
        }
        // a LanguageIdentifier matched against a Locale's id directly (AsRef)
        let want_li = model_matches(ma, mb, fl.0, fl.1);
        let got_li = ida.matches(lb, fl.0, fl.1);
        if got_li != want_li {
            pviol(coll, l, "c11.asref", "LanguageIdentifier::matches(&Locale) differs from the formula on the ids".into(), &sa, &sb, fl, want_li.to_string(), got_li.to_string());
        }
    }
}

pub fn run_c11(ctx: &Ctx) -> Report {
    let mut rep = Report::new();
    let dom = domain();
    let ids: Vec<LanguageIdentifier> = dom.iter().map(langid_from_model).collect();
    let n = dom.len() as u64;
    let coll = std::mem::take(&mut rep.collector);
    let st = par_range(ctx, "E4.pairs", n * n, 64, &|idx, l| {
        let (i, j) = ((idx / n) as usize, (idx % n) as usize);
        check_pair(&dom[i], &dom[j], &ids[i], &ids[j], l, &coll);
        if i == j {
            // reflexive under every flag pair
            for fl in FLAGS {
                if !ids[i].matches(&ids[j], fl.0, fl.1) {
                    pviol(&coll, l, "c11.reflexive", "not reflexive".into(), &dom[i].canon(), &dom[j].canon(), fl, "true".into(), "false".into());
                }
            }
        }
    });
    rep.add_space("E4.pairs", json!({"identifiers": n, "ordered_pairs": n * n, "flag_pairs": 4,
        "domain": "{und,en,fr,zh} x {none,Latn,Cyrl,Hant} x {none,US,001,FR} x 6 variant lists"}), &st);
    rep.transitions += n * n * 3;
    // per-field sweeps
    let mut fam_desc = vec![];
    for (name, fam) in field_families(&ctx.repo, ctx.quick()) {
        let fids: Vec<LanguageIdentifier> = fam.iter().map(langid_from_model).collect();
        let flocs: Vec<Locale> = fids.iter().map(|i| Locale::from(i.clone())).collect();
        let m = fam.len() as u64;
        let label: &'static str = Box::leak(format!("E4.field.{}", name).into_boxed_str());
        let stf = par_range(ctx, label, m * m, 256, &|idx, l| {
            let (i, j) = ((idx / m) as usize, (idx % m) as usize);
            check_pair(&fam[i], &fam[j], &fids[i], &fids[j], l, &coll);
            check_locale_pair(&fam[i], &fam[j], 0, 0, &flocs[i], &flocs[j], &fids[i], l, &coll);
        });
        rep.add_space(label, json!({"identifiers": m, "ordered_pairs": m * m, "flag_pairs": 4}), &stf);
        rep.transitions += m * m * 3;
        fam_desc.push(json!({"field": name, "identifiers": m}));
    }
    rep.extra.insert("field_sweeps".into(), json!(fam_desc));
    // the same product domain with the operands reached along OTHER routes than from_parts: parsed
    // from the UPPER-case / `_` spelling; emptied with set_variants(&[]) / clear_variants() after
    // having held variants; assigned field by field on a default value; cloned into a value that
    // held something else (clone_from).  matches() must answer as for the from_parts value of the
    // same model -- a representation that only one route produces (a present-but-empty variant
    // list, a language stored as the text `und`) shows here.
    {
        use unic_langid_impl::subtags::Variant;
        let routes: Vec<(&'static str, Vec<LanguageIdentifier>)> = vec![
            ("parsed from UPPER case with '_'", dom.iter().map(|m| m.canon().to_ascii_uppercase().replace('-', "_").parse::<LanguageIdentifier>().expect("domain id parses")).collect()),
            ("variants set, then set_variants(&[]) / set again", dom.iter().zip(ids.iter()).map(|(m, id)| {
                let mut x = id.clone();
                let other: Vec<Variant> = vec!["zzzzz".parse().unwrap(), "1abc".parse().unwrap()];
                x.set_variants(&other);
                x.set_variants(&[]);
                let vs: Vec<Variant> = m.variants.iter().map(|v| v.parse().unwrap()).collect();
                if !vs.is_empty() {
                    x.set_variants(&vs);
                }
                x
            }).collect()),
            ("variants set, then clear_variants() / set again", dom.iter().zip(ids.iter()).map(|(m, id)| {
                let mut x = id.clone();
                x.set_variants(&["zzzzz".parse().unwrap()]);
                x.clear_variants();
                let vs: Vec<Variant> = m.variants.iter().rev().map(|v| v.parse().unwrap()).collect();
                if !vs.is_empty() {
                    x.set_variants(&vs);
                }
                x
            }).collect()),
            ("clone_from into a value that held something else", ids.iter().map(|id| {
                let mut x: LanguageIdentifier = "sl-Latn-SI-rozaj-biske-1994".parse().unwrap();
                x.clone_from(id);
                x
            }).collect()),
            ("fields assigned on a default value", dom.iter().map(|m| {
                let mut x = LanguageIdentifier::default();
                x.language = m.lang.as_deref().unwrap_or("und").parse().unwrap();
                x.script = m.script.as_ref().map(|s| s.parse().unwrap());
                x.region = m.region.as_ref().map(|s| s.parse().unwrap());
                let vs: Vec<Variant> = m.variants.iter().map(|v| v.parse().unwrap()).collect();
                x.set_variants(&vs);
                x
            }).collect()),
        ];
        let nr = routes.len() as u64;
        let str_ = par_range(ctx, "E4.route_pairs", nr * n * n, 256, &|idx, l| {
            let r = (idx / (n * n)) as usize;
            let (i, j) = (((idx / n) % n) as usize, (idx % n) as usize);
            let alt = &routes[r].1;
            // the other-route value on the left, on the right, and on both sides (findings are
            // re-labelled with the route: the plain pair text would rebuild both sides with from_parts)
            let c2 = Collector::new();
            check_pair(&dom[i], &dom[j], &alt[i], &ids[j], l, &c2);
            check_pair(&dom[i], &dom[j], &ids[i], &alt[j], l, &c2);
            check_pair(&dom[i], &dom[j], &alt[i], &alt[j], l, &c2);
            for (_, _, v) in c2.classes() {
                let t = match &v.case {
                    Case::Text(t) => t.clone(),
                    c => c.key(),
                };
                coll.push(l.order, Violation { sub: "c11.route", class: format!("operand reached by another route ({}): {}", routes[r].0, v.class), case: Case::Text(format!("route{}:{}", r, t)), expected: v.expected, observed: v.observed });
            }
        });
        rep.add_space("E4.route_pairs", json!({"routes": routes.iter().map(|r| r.0).collect::<Vec<_>>(), "identifiers": n, "ordered_pairs_per_route": n * n, "placements": 3, "flag_pairs": 4}), &str_);
        rep.transitions += nr * n * n * 3 * 4;
    }
    // locales
    let locs: Vec<Vec<Locale>> = dom
        .iter()
        .map(|m| EXTS.iter().map(|e| format!("{}{}", m.canon(), e).parse::<Locale>().expect("domain locale parses")).collect())
        .collect();
    let ne = EXTS.len() as u64;
    let st2 = par_range(ctx, "E4.locale_pairs", n * n * ne * ne, 256, &|idx, l| {
        let mut k = idx;
        let eb = (k % ne) as usize;
        k /= ne;
        let ea = (k % ne) as usize;
        k /= ne;
        let (i, j) = ((k / n) as usize, (k % n) as usize);
        check_locale_pair(&dom[i], &dom[j], ea, eb, &locs[i][ea], &locs[j][eb], &ids[i], l, &coll);
    });
    rep.add_space("E4.locale_pairs", json!({"pairs": n * n * ne * ne, "extension_settings_per_side": EXTS}), &st2);
    rep.transitions += n * n * ne * ne * 3;
    rep.collector = coll;
    rep.distinct_nontrivial = st.local.nontrivial;
    rep.samples = vec![
        json!({"a": "en", "b": "en-US", "flags": [true, false], "matches": ids_match("en", "en-US", true, false)}),
        json!({"a": "en", "b": "en-US", "flags": [false, true], "matches": ids_match("en", "en-US", false, true)}),
        json!({"a": "und-Latn", "b": "fr-Latn-FR-1996", "flags": [true, true], "matches": ids_match("und-Latn", "fr-Latn-FR-1996", true, true)}),
    ];
    rep.extra.insert("langid_results".into(), json!({"false": st.local.counters[0], "true": st.local.counters[1]}));
    rep.extra.insert("locale_results".into(), json!({"false": st2.local.counters[2], "true": st2.local.counters[3]}));
    if st.local.counters[0] == 0 || st.local.counters[1] == 0 || st2.local.counters[2] == 0 || st2.local.counters[3] == 0 {
        rep.engine_failures.push("vacuity guard: matches was constant".into());
    }
    rep.rule = "E4: per-field sweeps (each of language / script / region over all values of the bundled CLDR data plus the standard's special codes, variant lists over all 128 sorted sub-lists of 7 variants; the other fields in two fixed contexts; every ordered pair x four flag pairs), and every ordered pair of the 384-identifier product domain x the four flag pairs through LanguageIdentifier::matches and Language::matches (formula, equality, symmetry, reflexivity, monotonicity), then every pair x 5x5 extension settings through Locale::matches and LanguageIdentifier::matches(&Locale). states = pairs, transitions = matches calls. Non-trivial = distinct identifiers that match under both flags (a genuine wildcard match).".into();
    rep
}

fn ids_match(a: &str, b: &str, ra: bool, rb: bool) -> bool {
    let a: LanguageIdentifier = a.parse().unwrap();
    let b: LanguageIdentifier = b.parse().unwrap();
    a.matches(&b, ra, rb)
}

pub fn replay(text: &str, coll: &Collector) {
    let Some(rest) = text.strip_prefix("pair:") else { return };
    let parts: Vec<&str> = rest.split('|').collect();
    if parts.len() < 2 {
        return;
    }
    let mut l = Local::new();
    let parse_m = |s: &str| -> Option<(MLangId, usize)> {
        // split off a known extension suffix
        for (i, e) in EXTS.iter().enumerate().rev() {
            if !e.is_empty() && s.ends_with(e) {
                if let refmodel::LangIdVerdict::Accept(m) = refmodel::langid_oracle(s[..s.len() - e.len()].as_bytes()) {
                    return Some((m, i));
                }
            }
        }
        if let refmodel::LangIdVerdict::Accept(m) = refmodel::langid_oracle(s.as_bytes()) {
            return Some((m, 0));
        }
        None
    };
    let (Some((ma, ea)), Some((mb, eb))) = (parse_m(parts[0]), parse_m(parts[1])) else { return };
    let (a, b) = (langid_from_model(&ma), langid_from_model(&mb));
    check_pair(&ma, &mb, &a, &b, &mut l, coll);
    let la: Locale = format!("{}{}", ma.canon(), EXTS[ea]).parse().unwrap();
    let lb: Locale = format!("{}{}", mb.canon(), EXTS[eb]).parse().unwrap();
    check_locale_pair(&ma, &mb, ea, eb, &la, &lb, &a, &mut l, coll);
    if parts[0] == parts[1] {
        // the sweep meets equal texts as ONE object on both sides (x.matches(&x, ..)); aliasing is
        // part of the case
        check_pair(&ma, &ma, &a, &a, &mut l, coll);
        check_locale_pair(&ma, &ma, ea, ea, &la, &la, &a, &mut l, coll);
    }
}

//! C14 — character_direction versus the CLDR layout data, in the build with and the build
//! without `likelysubtags` (the latter through the `mc-base` binary, `mc aux c14`).

use super::universe::*;
use crate::engine::*;
use refmodel::likely::{Dir, DirRef, Triple};
use serde_json::{json, Value};
use unic_langid_impl::subtags::Variant;
use unic_langid_impl::{CharacterDirection, LanguageIdentifier};

pub fn load_dirref(repo: &str) -> DirRef {
    let dir = format!("{}/unic-langid-impl/data/cldr-misc-full/main", repo);
    let mut names: Vec<String> = std::fs::read_dir(&dir)
        .expect("layout dir")
        .map(|e| e.unwrap().file_name().into_string().unwrap())
        .collect();
    names.sort();
    let mut locales = vec![];
    for name in names {
        let txt = std::fs::read_to_string(format!("{}/{}/layout.json", dir, name)).expect("layout.json");
        let v: Value = serde_json::from_str(&txt).expect("layout json");
        let key = v["main"].as_object().unwrap().keys().next().unwrap().clone();
        if key == "root" {
            continue;
        }
        let d = match v["main"][&key]["layout"]["orientation"]["characterOrder"].as_str().unwrap() {
            "right-to-left" => Dir::RTL,
            "left-to-right" => Dir::LTR,
            "top-to-bottom" => Dir::TTB,
            o => panic!("unknown characterOrder {}", o),
        };
        let m = match refmodel::langid_oracle(key.as_bytes()) {
            refmodel::LangIdVerdict::Accept(m) => m,
            o => panic!("layout locale {} is not a language identifier: {:?}", key, o),
        };
        locales.push((key, m.lang.clone().unwrap_or_else(|| "und".into()), m.script.clone(), m.region.clone(), d));
    }
    DirRef::new(locales)
}

fn to_dir(d: CharacterDirection) -> Dir {
    match d {
        CharacterDirection::LTR => Dir::LTR,
        CharacterDirection::RTL => Dir::RTL,
        CharacterDirection::TTB => Dir::TTB,
    }
}

pub const WITH_LIKELY: bool = cfg!(feature = "likelysubtags");

fn dviol(coll: &Collector, l: &Local, sub: &'static str, class: String, id: &str, expected: String, observed: String) {
    coll.push(l.order, Violation {
        sub, class,
        case: Case::Text(format!("direction:{}:{}", if WITH_LIKELY { "likelysubtags" } else { "base" }, id)),
        expected, observed,
    });
}

/// clauses 1 and 4 on one CLDR locale
pub fn check_locale(dr: &DirRef, i: usize, l: &mut Local, coll: &Collector) {
    let (name, lang, script, _region, want) = &dr.locales[i];
    let li: LanguageIdentifier = match name.parse() {
        Ok(li) => li,
        Err(e) => {
            dviol(coll, l, "c14.setup", "CLDR locale name does not parse".into(), name, "Ok".into(), format!("{:?}", e));
            return;
        }
    };
    let got = match guard_total(|| li.character_direction()) {
        Ok(d) => to_dir(d),
        Err(p) => {
            dviol(coll, l, "c14.panic", format!("character_direction panics: {}", p), name, "a direction".into(), p);
            return;
        }
    };
    l.counters[(got == *want) as usize] += 1;
    if got != *want {
        if WITH_LIKELY {
            dviol(coll, l, "c14.cldr", "with likelysubtags: direction differs from CLDR characterOrder".into(), name, format!("{:?}", want), format!("{:?}", got));
        } else if !(script.is_none() && dr.multi_dir_langs.contains(lang)) {
            dviol(coll, l, "c14.cldr_base", "without likelysubtags: differs from CLDR outside the allowance (script-less identifier of a multi-direction language)".into(),
                  name, format!("{:?}", want), format!("{:?}", got));
        } else {
            l.counters[2] += 1;
        }
    }
}

pub struct Expect {
    /// direction decided by a listed script, per script id
    pub script_dir: Vec<Option<Dir>>,
    /// language never listed right-to-left, per language id
    pub lang_never_rtl: Vec<bool>,
}

pub fn expectations(u: &Universe, dr: &DirRef) -> Expect {
    Expect {
        script_dir: u.lk.scripts.iter().map(|s| dr.script_dir.get(s).copied()).collect(),
        lang_never_rtl: u.lk.langs.iter().map(|l| !dr.rtl_langs.contains(l)).collect(),
    }
}

/// clauses 2 and 3 on one triple
pub fn check_triple(u: &Universe, ex: &Expect, t: Triple, l: &mut Local, coll: &Collector) {
    let x = u.lib(t);
    let li = LanguageIdentifier::from_parts(x.0, x.1, x.2, &[]);
    let got = match guard_total(|| li.character_direction()) {
        Ok(d) => to_dir(d),
        Err(p) => {
            dviol(coll, l, "c14.panic", format!("character_direction panics: {}", p), &u.lk.show(t), "a direction".into(), p);
            return;
        }
    };
    if let Some(d) = ex.script_dir[t.1 as usize] {
        l.counters[3] += 1;
        if got != d {
            dviol(coll, l, "c14.script", "a script that CLDR lists does not decide the direction on its own".into(), &u.lk.show(t), format!("{:?}", d), format!("{:?}", got));
        }
    } else if ex.lang_never_rtl[t.0 as usize] {
        l.counters[4] += 1;
        if got != Dir::LTR {
            dviol(coll, l, "c14.default_ltr", "unlisted/absent script and a language never listed right-to-left, but not LTR".into(), &u.lk.show(t), "LTR".into(), format!("{:?}", got));
        }
    } else {
        l.counters[5] += 1;
    }
    if got != Dir::LTR {
        l.nontrivial += 1;
    }
    if l.wants((got as u32) * 8 + super::likely_kind(t)) {
        l.sample((got as u32) * 8 + super::likely_kind(t), u.lk.show(t).as_bytes(), || format!("{:?}", got));
    }
}

pub fn check_variants(u: &Universe, t: Triple, menus: &[Vec<Variant>], l: &mut Local, coll: &Collector) {
    let x = u.lib(t);
    let base = LanguageIdentifier::from_parts(x.0, x.1, x.2, &[]).character_direction();
    for vs in menus {
        let d = LanguageIdentifier::from_parts(x.0, x.1, x.2, vs).character_direction();
        if d != base {
            dviol(coll, l, "c14.variants", "variants change the direction".into(), &u.lk.show(t), format!("{:?}", base), format!("{:?}", d));
        }
    }
}

/// The part of C14 that one build can decide. Returns the report (violations inside).
pub fn run_build(ctx: &Ctx) -> Report {
    let mut rep = Report::new();
    let u = Universe::new(&ctx.repo);
    let dr = load_dirref(&ctx.repo);
    let ex = expectations(&u, &dr);
    let coll = std::mem::take(&mut rep.collector);
    let tag = if WITH_LIKELY { "likelysubtags" } else { "base" };
    let st0 = par_range(ctx, "E4.locales", dr.locales.len() as u64, 16, &|i, l| check_locale(&dr, i as usize, l, &coll));
    rep.add_space(&format!("{}:E4.layout_locales", tag), json!({"locales": dr.locales.len(), "listed_scripts": dr.script_dir.len(),
        "rtl_languages": dr.rtl_langs.len(), "multi_direction_languages": dr.multi_dir_langs}), &st0);
    let st = par_range(ctx, "E4.triples", u.size(), 1 << 14, &|idx, l| check_triple(&u, &ex, u.decode(idx), l, &coll));
    rep.add_space(&format!("{}:E4.triples", tag), u.describe(), &st);
    let v = |s: &str| -> Variant { s.parse().unwrap() };
    let menus = vec![vec![v("valencia")], vec![v("1996"), v("fonipa")], vec![v("abcde"), v("1abc"), v("zzzzzzzz")]];
    // sub-universe: every language listed RTL or multi-direction, every 16th other language, all scripts, every 4th region
    let langs: Vec<u16> = (0..u.langs.len() as u16)
        .filter(|i| !ex.lang_never_rtl[*i as usize] || i % 16 == 0 || *i as usize >= u.lk.known.0)
        .collect();
    let regions: Vec<u16> = (0..u.regions.len() as u16).filter(|i| *i < 4 || i % 4 == 0).collect();
    let ns = u.scripts.len() as u64;
    let n = langs.len() as u64 * ns * regions.len() as u64;
    let st2 = par_range(ctx, "E4.variants", n, 1 << 10, &|idx, l| {
        let r = regions[(idx % regions.len() as u64) as usize];
        let s = ((idx / regions.len() as u64) % ns) as u16;
        let la = langs[(idx / (regions.len() as u64 * ns)) as usize];
        check_variants(&u, (la, s, r), &menus, l, &coll);
    });
    rep.add_space(&format!("{}:E4.variants", tag), json!({"triples": n, "variant_lists": 3}), &st2);
    // the complete script domain: every one of the 26^4 well-formed script subtags (the universe
    // holds only the scripts of the CLDR data) with languages never listed right-to-left: a listed
    // script decides alone, every other script leaves the identifier left-to-right -- a change that
    // folds or special-cases a script code the data do not mention (`Aran`, `Latf`, ...) lives here
    {
        use unic_langid_impl::subtags::{Language, Region, Script};
        let listed: std::collections::HashMap<String, Dir> = dr.script_dir.iter().map(|(k, v)| (k.clone(), *v)).collect();
        let ctxs: Vec<(Language, Option<Region>)> = vec![("en".parse().unwrap(), None), ("und".parse().unwrap(), None), ("fr".parse().unwrap(), Some("PK".parse().unwrap()))];
        let n4 = 26u64.pow(4);
        let st4 = par_range(ctx, "E4.script_domain", n4, 1 << 12, &|idx, l| {
            let mut b = [0u8; 4];
            let mut r = idx;
            for k in (0..4).rev() {
                b[k] = b'a' + (r % 26) as u8;
                r /= 26;
            }
            b[0] = b[0].to_ascii_uppercase();
            let Ok(sc) = Script::from_bytes(&b) else { return };
            let name = std::str::from_utf8(&b).unwrap();
            let want = listed.get(name).copied().unwrap_or(Dir::LTR);
            for (la, re) in &ctxs {
                l.counters[0] += 1;
                let li = LanguageIdentifier::from_parts(*la, Some(sc), *re, &[]);
                let got = to_dir(li.character_direction());
                if got != want {
                    dviol(&coll, l, if listed.contains_key(name) { "c14.script" } else { "c14.default_ltr" }, "complete script domain: the direction is not what the script (listed) / the default (unlisted script, language never right-to-left) demands".into(), &li.to_string(), format!("{:?}", want), format!("{:?}", got));
                }
            }
        });
        let mut stx = st4;
        stx.inputs = stx.local.counters[0];
        rep.add_space(&format!("{}:E4.script_domain", tag), json!({"scripts": n4, "contexts": 3}), &stx);
    }
    // every real-world variant word (registered IANA variants: romanisations, orthographies, ...),
    // alone and beside another variant, on every language listed right-to-left or multi-direction
    // (and a few others) x {no script, each listed script, an unlisted script} x {no region, a region}:
    // a change that keys the direction on a particular variant lives here
    {
        let mut words: Vec<Variant> = crate::spaces::dictionary_words().iter().filter_map(|w| Variant::from_bytes(w.as_bytes()).ok()).collect();
        words.extend(crate::spaces::ORDER_VARIANTS.iter().filter_map(|w| Variant::from_bytes(w.as_bytes()).ok()));
        words.sort();
        words.dedup();
        let langs2: Vec<u16> = (0..u.langs.len() as u16).filter(|i| !ex.lang_never_rtl[*i as usize] || i % 512 == 1).collect();
        let scripts2: Vec<u16> = (0..u.scripts.len() as u16).filter(|i| *i == 0 || ex.script_dir[*i as usize].is_some() || i % 40 == 7).collect();
        let regions2: Vec<u16> = vec![0, 1.min(u.regions.len() as u16 - 1), (u.regions.len() / 2) as u16];
        let nw = words.len() as u64;
        let n2 = langs2.len() as u64 * scripts2.len() as u64 * regions2.len() as u64;
        let other: Variant = "valencia".parse().unwrap();
        let st3 = par_range(ctx, "E4.variant_words", n2, 64, &|idx, l| {
            let r = regions2[(idx % regions2.len() as u64) as usize];
            let sc = scripts2[((idx / regions2.len() as u64) % scripts2.len() as u64) as usize];
            let la = langs2[(idx / (regions2.len() as u64 * scripts2.len() as u64)) as usize];
            let x = u.lib((la, sc, r));
            let base = LanguageIdentifier::from_parts(x.0, x.1, x.2, &[]).character_direction();
            for w in &words {
                for vs in [vec![*w], vec![*w, other]] {
                    l.counters[0] += 1;
                    let d = LanguageIdentifier::from_parts(x.0, x.1, x.2, &vs).character_direction();
                    if d != base {
                        dviol(&coll, l, "c14.variants", format!("the variant {} changes the direction", w), &format!("{}-{}", u.lk.show((la, sc, r)), vs.iter().map(|v| v.as_str()).collect::<Vec<_>>().join("-")), format!("{:?}", base), format!("{:?}", d));
                    }
                }
            }
        });
        let mut stx = st3;
        stx.inputs = stx.local.counters[0];
        rep.add_space(&format!("{}:E4.variant_words", tag), json!({"triples": n2, "variant_words": nw, "lists_per_word": 2}), &stx);
    }
    // histories of two calls over all layout locales, on one thread: the answer for y must not
    // depend on the call made before it
    {
        let t0 = std::time::Instant::now();
        let ids: Vec<Option<LanguageIdentifier>> = dr.locales.iter().map(|x| x.0.parse().ok()).collect();
        let alone: Vec<Option<Dir>> = ids.iter().map(|i| i.as_ref().and_then(|li| guard_total(|| li.character_direction()).ok().map(to_dir))).collect();
        let mut pairs = 0u64;
        let mut bad = 0u64;
        for (i, x) in ids.iter().enumerate() {
            let Some(x) = x else { continue };
            for (j, y) in ids.iter().enumerate() {
                let Some(y) = y else { continue };
                pairs += 1;
                let r = guard_total(|| {
                    let _ = x.character_direction();
                    to_dir(y.character_direction())
                });
                if r.as_ref().ok() != alone[j].as_ref() && bad < 1000 {
                    bad += 1;
                    coll.push(pairs, Violation {
                        sub: "c14.history",
                        class: "character_direction of an identifier depends on the call made before it (state kept between calls)".into(),
                        case: Case::Text(format!("dirhist:{}:{}|{}", tag, dr.locales[i].0, dr.locales[j].0)),
                        expected: format!("{:?}", alone[j]),
                        observed: format!("{:?}", r),
                    });
                }
            }
        }
        rep.states += pairs;
        rep.transitions += pairs * 2;
        rep.evaluations += pairs;
        rep.traces += pairs;
        let e = rep.extra.entry("engines".to_string()).or_insert_with(|| json!({}));
        e[format!("{}:E3.locale_pairs", tag)] = json!({"space": {"kind": "every ordered pair (x, y) of the CLDR layout locales: direction(x), then direction(y) on one thread; direction(y) must equal its answer in isolation", "pairs": pairs},
            "inputs": pairs, "wall_s": (t0.elapsed().as_secs_f64() * 100.0).round() / 100.0});
    }
    // the same two-call histories over a product domain in which any two identifiers share a
    // language, a script or a region: 9 languages (listed right-to-left and not) x 9 scripts (none,
    // listed either way, unlisted) x 3 regions -- a memo keyed on PART of the identifier (the script
    // alone, language + region) answers y with x's verdict
    {
        let t0 = std::time::Instant::now();
        let mut ids: Vec<LanguageIdentifier> = vec![];
        for la in ["und", "en", "he", "ar", "az", "uz", "ug", "dv", "pa"] {
            for sc in ["", "-Hebr", "-Thaa", "-Arab", "-Latn", "-Thai", "-Grek", "-Qaaa", "-Mong"] {
                for r in ["", "-IL", "-KZ"] {
                    ids.push(format!("{}{}{}", la, sc, r).parse().expect("product identifier"));
                }
            }
        }
        let alone: Vec<Option<Dir>> = ids.iter().map(|li| guard_total(|| li.character_direction()).ok().map(to_dir)).collect();
        let mut pairs = 0u64;
        let mut bad = 0u64;
        for (i, x) in ids.iter().enumerate() {
            for (j, y) in ids.iter().enumerate() {
                pairs += 1;
                let r = guard_total(|| {
                    let _ = x.character_direction();
                    to_dir(y.character_direction())
                });
                if r.as_ref().ok() != alone[j].as_ref() && bad < 1000 {
                    bad += 1;
                    let _ = i;
                    coll.push(pairs, Violation {
                        sub: "c14.history",
                        class: "character_direction of an identifier depends on the call made before it (state kept between calls)".into(),
                        case: Case::Text(format!("dirhist:{}:{}|{}", tag, x, y)),
                        expected: format!("{:?}", alone[j]),
                        observed: format!("{:?}", r),
                    });
                }
            }
        }
        rep.states += pairs;
        rep.transitions += pairs * 2;
        rep.evaluations += pairs;
        rep.traces += pairs;
        let e = rep.extra.entry("engines".to_string()).or_insert_with(|| json!({}));
        e[format!("{}:E3.product_pairs", tag)] = json!({"space": {"kind": "every ordered pair (x, y) of 243 identifiers (9 languages x 9 scripts x 3 regions): direction(x), then direction(y) on one thread", "pairs": pairs},
            "inputs": pairs, "wall_s": (t0.elapsed().as_secs_f64() * 100.0).round() / 100.0});
    }
    rep.collector = coll;
    rep.distinct_nontrivial = st.local.nontrivial;
    rep.samples = st.local.samples_json(10);
    rep.extra.insert(format!("{}:layout_locales", tag), json!({"equal_to_cldr": st0.local.counters[1], "different": st0.local.counters[0],
        "different_within_allowance": st0.local.counters[2]}));
    rep.extra.insert(format!("{}:triples_by_clause", tag), json!({"listed_script_decides": st.local.counters[3], "must_be_ltr": st.local.counters[4], "unconstrained": st.local.counters[5]}));
    if st.local.counters[3] == 0 || st.local.counters[4] == 0 || st0.local.counters[1] < 600 {
        rep.engine_failures.push(format!("{}: vacuity guard (C14) failed", tag));
    }
    rep
}

pub fn report_to_json(rep: &Report) -> Value {
    let classes: Vec<Value> = rep
        .collector
        .classes()
        .into_iter()
        .map(|(count, order, v)| json!({"count": count, "order": order, "sub": v.sub, "class": v.class, "case": v.case.to_json(), "expected": v.expected, "observed": v.observed}))
        .collect();
    json!({
        "states": rep.states, "transitions": rep.transitions, "traces": rep.traces, "evaluations": rep.evaluations,
        "distinct_nontrivial": rep.distinct_nontrivial, "samples": rep.samples, "extra": Value::Object(rep.extra.clone()),
        "engine_failures": rep.engine_failures, "classes": classes, "total": rep.collector.total(),
    })
}

/// merges the JSON produced by `mc aux ...` of another build into `rep`
pub fn merge_aux(rep: &mut Report, aux: &Value, tag: &str) {
    rep.states += aux["states"].as_u64().unwrap_or(0);
    rep.transitions += aux["transitions"].as_u64().unwrap_or(0);
    rep.traces += aux["traces"].as_u64().unwrap_or(0);
    rep.evaluations += aux["evaluations"].as_u64().unwrap_or(0);
    if let Some(ex) = aux["extra"].as_object() {
        for (k, v) in ex {
            if k == "engines" {
                if let Some(engs) = v.as_object() {
                    let e = rep.extra.entry("engines".to_string()).or_insert_with(|| json!({}));
                    for (ek, ev) in engs {
                        e[ek] = ev.clone();
                    }
                }
            } else {
                rep.extra.insert(k.clone(), v.clone());
            }
        }
    }
    for f in aux["engine_failures"].as_array().cloned().unwrap_or_default() {
        rep.engine_failures.push(format!("{}: {}", tag, f.as_str().unwrap_or("?")));
    }
    for c in aux["classes"].as_array().cloned().unwrap_or_default() {
        let sub = super::sub_name(c["sub"].as_str().unwrap_or("")).unwrap_or("aux.violation");
        let v = Violation {
            sub,
            class: format!("[{}] {}", tag, c["class"].as_str().unwrap_or("")),
            case: Case::from_json(&c["case"]).unwrap_or(Case::Text("?".into())),
            expected: c["expected"].as_str().unwrap_or("").to_string(),
            observed: c["observed"].as_str().unwrap_or("").to_string(),
        };
        let count = c["count"].as_u64().unwrap_or(1);
        for _ in 0..count.min(1) {
            rep.collector.push(c["order"].as_u64().unwrap_or(0), v.clone());
        }
        rep.collector.total.fetch_add(count.saturating_sub(1), std::sync::atomic::Ordering::Relaxed);
    }
}

pub fn base_mc_path() -> String {
    std::env::var("VERIF_BASE_MC").unwrap_or_else(|_| "/verif/work/target-base/release/mc".to_string())
}

pub fn run_aux(ctx: &Ctx, what: &str) -> Result<Value, String> {
    let out = std::process::Command::new(base_mc_path())
        .arg("aux")
        .arg(what)
        .arg(ctx.tier_name())
        .env("VERIF_SEED", ctx.seed.to_string())
        .env("VERIF_REPO", &ctx.repo)
        .output()
        .map_err(|e| format!("cannot run {}: {}", base_mc_path(), e))?;
    if !out.status.success() {
        return Err(format!("{} aux {} exited with {:?}: {}", base_mc_path(), what, out.status, String::from_utf8_lossy(&out.stderr)));
    }
    let txt = String::from_utf8_lossy(&out.stdout);
    let line = txt.lines().rev().find(|l| l.starts_with('{')).ok_or("no JSON from aux run")?;
    serde_json::from_str(line).map_err(|e| format!("bad JSON from aux run: {}", e))
}

pub fn run_c14(ctx: &Ctx) -> Report {
    let mut rep = run_build(ctx);
    if !WITH_LIKELY {
        rep.engine_failures.push("C14 must be started from the mc-full build".into());
        return rep;
    }
    match run_aux(ctx, "c14") {
        Ok(aux) => merge_aux(&mut rep, &aux, "base"),
        Err(e) => rep.engine_failures.push(e),
    }
    // the facade configurations: likely-subtags support requested through ONE facade crate only
    // (`unic-locale/likelysubtags`, `unic-langid/likelysubtags`) must reach the implementation --
    // the two builds above enable the feature on the implementation crates directly and cannot
    // see a broken link in the chain facade -> unic-locale-impl -> unic-langid-impl
    {
        let dr = load_dirref(&ctx.repo);
        let t0 = std::time::Instant::now();
        let mut checked = 0u64;
        for (fs, with) in [(["locale_likely"], true), (["langid_likely"], true)] {
            match super::features::facade_directions(ctx, &fs) {
                Ok(dirs) => {
                    for (name, lang, script, _region, want) in &dr.locales {
                        // the transcript prints the canonical text of the identifier
                        let canon = match name.parse::<LanguageIdentifier>() {
                            Ok(li) => li.to_string(),
                            Err(_) => continue,
                        };
                        let Some(got) = dirs.get(&canon) else {
                            rep.engine_failures.push(format!("facade configuration {}: no direction line for {}", fs[0], canon));
                            continue;
                        };
                        checked += 1;
                        let wants = format!("{:?}", want);
                        let within_allowance = !with && script.is_none() && dr.multi_dir_langs.contains(lang);
                        if *got != wants && !within_allowance {
                            rep.collector.push(checked, Violation {
                                sub: "c14.facade",
                                class: format!("facade built with the feature {}: direction differs from CLDR characterOrder", fs[0]),
                                case: Case::Text(format!("facade:{}:{}", fs[0], name)),
                                expected: wants,
                                observed: got.clone(),
                            });
                        }
                    }
                }
                Err(e) => rep.engine_failures.push(format!("facade configuration {}: {}", fs[0], e)),
            }
        }
        rep.states += checked;
        rep.transitions += checked;
        rep.traces += checked;
        rep.evaluations += checked;
        let e = rep.extra.entry("engines".to_string()).or_insert_with(|| json!({}));
        e["facade:E5.layout_locales"] = json!({"space": {"kind": "every CLDR layout locale through the facade crates built with likely-subtags requested through one facade only (unic-locale/likelysubtags; unic-langid/likelysubtags): the direction must equal CLDR characterOrder", "configurations": 2},
            "inputs": checked, "wall_s": (t0.elapsed().as_secs_f64() * 100.0).round() / 100.0});
    }
    #[cfg(feature = "likelysubtags")]
    super::conc::run_family(ctx, "direction", "c14.schedule", &mut rep);
    rep.rule = "E4, complete, in two builds of the library (with and without the likelysubtags feature): all CLDR layout locales (clauses 1 and 4: equality with characterOrder / differences only within the stated allowance), every (language, script, region) of the CLDR universe plus unknowns (clauses 2 and 3: a listed script decides alone; unlisted/absent script + language never listed RTL => LTR), a sub-universe x 3 variant lists and every real-world variant word on the RTL / multi-direction languages (variants never matter); E5: the layout locales through the facade crates built with likely-subtags requested through one facade only. Non-trivial = direction other than LTR.".into();
    rep.assumptions = vec!["data/cldr-misc-full/main/*/layout.json is the source of truth; 'root' is not an identifier and is skipped".into()];
    rep
}

pub fn replay_hist(text: &str, coll: &Collector) {
    // dirhist:<build>:<x>|<y>
    let parts: Vec<&str> = text.splitn(3, ':').collect();
    if parts.len() != 3 || (parts[1] == "likelysubtags") != WITH_LIKELY {
        return;
    }
    let Some((x, y)) = parts[2].split_once('|') else { return };
    let (Ok(x), Ok(y)) = (x.parse::<LanguageIdentifier>(), y.parse::<LanguageIdentifier>()) else { return };
    // "in isolation": on a fresh thread (thread-local state) ...
    let alone = std::thread::scope(|s| s.spawn(|| to_dir(y.character_direction())).join().unwrap());
    // ... and after x
    let after = std::thread::scope(|s| s.spawn(|| { let _ = x.character_direction(); to_dir(y.character_direction()) }).join().unwrap());
    if alone != after {
        coll.push(0, Violation { sub: "c14.history", class: "history".into(), case: Case::Text(text.to_string()), expected: format!("{:?}", alone), observed: format!("{:?}", after) });
    }
}

pub fn replay(ctx: &Ctx, text: &str, coll: &Collector) {
    // direction:<build>:<id>
    let parts: Vec<&str> = text.splitn(3, ':').collect();
    if parts.len() != 3 {
        return;
    }
    if (parts[1] == "likelysubtags") != WITH_LIKELY {
        return; // belongs to the other build
    }
    let u = super::universe::shared(&ctx.repo);
    static D: std::sync::OnceLock<(DirRef, Expect)> = std::sync::OnceLock::new();
    let (dr, ex) = D.get_or_init(|| {
        let dr = load_dirref(&ctx.repo);
        let ex = expectations(u, &dr);
        (dr, ex)
    });
    let mut l = Local::new();
    if let Some(i) = dr.locales.iter().position(|x| x.0 == parts[2]) {
        check_locale(dr, i, &mut l, coll);
    }
    if let Some(t) = u.lk.ids_of(parts[2]) {
        check_triple(u, ex, t, &mut l, coll);
        let v = |s: &str| -> Variant { s.parse().unwrap() };
        check_variants(u, t, &[vec![v("valencia")], vec![v("1996"), v("fonipa")], vec![v("abcde"), v("1abc"), v("zzzzzzzz")]], &mut l, coll);
    }
}

//! C09 — parsing ignores case, separator choice and the order of unordered parts.
//! Metamorphic: complete enumeration of (input, transformed input) pairs; the pair is the
//! oracle, no reference model.

use crate::engine::*;
use crate::spaces::*;
use serde_json::json;
use unic_langid_impl::LanguageIdentifier;
use unic_locale_impl::Locale;

#[derive(PartialEq)]
enum R {
    Ok(Locale, String),
    Err,
    Panic(String),
}
#[derive(PartialEq)]
enum RL {
    Ok(LanguageIdentifier, String),
    Err,
    Panic(String),
}

fn pl(b: &[u8]) -> R {
    match guard(|| Locale::from_bytes(b)) {
        Out::Ok(l) => {
            let s = l.to_string();
            R::Ok(l, s)
        }
        Out::Err(_) => R::Err,
        Out::Panic(p) => R::Panic(p),
    }
}
fn pli(b: &[u8]) -> RL {
    match guard(|| LanguageIdentifier::from_bytes(b)) {
        Out::Ok(l) => {
            let s = l.to_string();
            RL::Ok(l, s)
        }
        Out::Err(_) => RL::Err,
        Out::Panic(p) => RL::Panic(p),
    }
}
fn show_r(r: &R) -> String {
    match r {
        R::Ok(_, s) => format!("Ok({})", s),
        R::Err => "Err".into(),
        R::Panic(p) => format!("PANIC({})", p),
    }
}
fn show_rl(r: &RL) -> String {
    match r {
        RL::Ok(_, s) => format!("Ok({})", s),
        RL::Err => "Err".into(),
        RL::Panic(p) => format!("PANIC({})", p),
    }
}

pub struct Base {
    bytes: Vec<u8>,
    loc: R,
    li: RL,
    /// the stand-alone extension parser on the text after the language-id prefix
    ext: Option<RE>,
}
impl Base {
    pub fn new(b: &[u8]) -> Base {
        Base { bytes: b.to_vec(), loc: pl(b), li: pli(b), ext: ext_tail(b).map(pe) }
    }
}

#[derive(PartialEq)]
enum RE {
    Ok(unic_locale_impl::ExtensionsMap, String),
    Err,
    Panic(String),
}
fn pe(b: &[u8]) -> RE {
    match guard(|| unic_locale_impl::ExtensionsMap::from_bytes(b)) {
        Out::Ok(e) => {
            let s = e.to_string();
            RE::Ok(e, s)
        }
        Out::Err(_) => RE::Err,
        Out::Panic(p) => RE::Panic(p),
    }
}
fn show_re(r: &RE) -> String {
    match r {
        RE::Ok(_, s) => format!("Ok({})", s),
        RE::Err => "Err".into(),
        RE::Panic(p) => format!("PANIC({})", p),
    }
}
/// the bytes after the language-id prefix (language, script, region, variants as the
/// reference grammar delimits them; the same number of tokens in every transformed version)
fn ext_tail(b: &[u8]) -> Option<&[u8]> {
    let tokens = refmodel::split_tokens(b);
    let (_, n) = refmodel::langid_prefix(&tokens, 0).ok()?;
    if n >= tokens.len() {
        return None;
    }
    let off: usize = tokens.iter().take(n).map(|t| t.len() + 1).sum();
    Some(&b[off.min(b.len())..])
}

/// compares the transformed input with the base; `what` names the transformation
pub fn check_pair(base: &Base, t: &[u8], what: &'static str, l: &mut Local, coll: &Collector) {
    l.counters[0] += 1;
    let r = pl(t);
    if r != base.loc || matches!(r, R::Panic(_)) {
        coll.push(l.order, Violation {
            sub: "c09.locale",
            class: format!("{}: Locale results differ ({} vs {})", what, kind_r(&base.loc), kind_r(&r)),
            case: Case::Text(format!("mpair:{}|{}", hex(&base.bytes), hex(t))),
            expected: format!("{} for {}", show_r(&base.loc), lossy(&base.bytes)),
            observed: format!("{} for {}", show_r(&r), lossy(t)),
        });
    }
    if let R::Ok(..) = r {
        l.counters[1] += 1;
    }
    // the same law for the stand-alone extension parser (ExtensionsMap::from_bytes / FromStr)
    {
        if let (Some(be), Some(tt)) = (&base.ext, ext_tail(t)) {
            let re = pe(tt);
            if re != *be || matches!(re, RE::Panic(_)) {
                coll.push(l.order, Violation {
                    sub: "c09.extensions",
                    class: format!("{}: ExtensionsMap::from_bytes results differ on the extension part", what),
                    case: Case::Text(format!("mpair:{}|{}", hex(&base.bytes), hex(t))),
                    expected: format!("{} for {}", show_re(be), lossy(&base.bytes)),
                    observed: format!("{} for {}", show_re(&re), lossy(t)),
                });
            }
        }
    }
    let rl = pli(t);
    if rl != base.li || matches!(rl, RL::Panic(_)) {
        coll.push(l.order, Violation {
            sub: "c09.langid",
            class: format!("{}: LanguageIdentifier results differ", what),
            case: Case::Text(format!("mpair:{}|{}", hex(&base.bytes), hex(t))),
            expected: format!("{} for {}", show_rl(&base.li), lossy(&base.bytes)),
            observed: format!("{} for {}", show_rl(&rl), lossy(t)),
        });
    }
}
fn kind_r(r: &R) -> &'static str {
    match r {
        R::Ok(..) => "Ok",
        R::Err => "Err",
        R::Panic(_) => "panic",
    }
}

fn style(tok: &[u8], st: u32, out: &mut Vec<u8>) {
    match st {
        0 => out.extend(tok.iter().map(|b| b.to_ascii_lowercase())),
        1 => out.extend(tok.iter().map(|b| b.to_ascii_uppercase())),
        2 => out.extend(tok.iter().enumerate().map(|(i, b)| if i == 0 { b.to_ascii_uppercase() } else { b.to_ascii_lowercase() })),
        _ => out.extend(tok.iter().map(|b| if b.is_ascii_lowercase() { b.to_ascii_uppercase() } else { b.to_ascii_lowercase() })),
    }
}

/// all raw transformations of one token sequence
fn raw_transforms(tokens: &[&[u8]], letter_masks: bool, styles: bool, sep_masks: bool, combos: bool, l: &mut Local, coll: &Collector) {
    let d = tokens.len();
    let mut basev = vec![];
    for (i, t) in tokens.iter().enumerate() {
        if i > 0 {
            basev.push(b'-');
        }
        basev.extend_from_slice(t);
    }
    let base = Base::new(&basev);
    if matches!(base.loc, R::Ok(..)) {
        l.nontrivial += 1;
    }
    if l.wants(matches!(base.loc, R::Ok(..)) as u32) {
        l.sample(matches!(base.loc, R::Ok(..)) as u32, &basev, || format!("base -> {}", show_r(&base.loc)));
    }
    let mut buf: Vec<u8> = Vec::with_capacity(basev.len());
    if letter_masks {
        let letters: Vec<usize> = basev.iter().enumerate().filter(|(_, b)| b.is_ascii_alphabetic()).map(|(i, _)| i).collect();
        if letters.len() <= 10 {
            for m in 0..(1u32 << letters.len()) {
                buf.clear();
                buf.extend_from_slice(&basev);
                for (k, &p) in letters.iter().enumerate() {
                    buf[p] = if (m >> k) & 1 == 1 { basev[p].to_ascii_uppercase() } else { basev[p].to_ascii_lowercase() };
                }
                check_pair(&base, &buf, "per-letter case mask", l, coll);
            }
        }
    }
    let nstyles = 4u32.pow(d as u32);
    let nseps = if d > 0 { 1u32 << (d - 1) } else { 1 };
    if styles {
        for s in 0..nstyles {
            buf.clear();
            for (i, t) in tokens.iter().enumerate() {
                if i > 0 {
                    buf.push(b'-');
                }
                style(t, (s >> (2 * i)) & 3, &mut buf);
            }
            check_pair(&base, &buf, "per-token case style", l, coll);
        }
    }
    if sep_masks {
        for m in 0..nseps {
            buf.clear();
            for (i, t) in tokens.iter().enumerate() {
                if i > 0 {
                    buf.push(if (m >> (i - 1)) & 1 == 1 { b'_' } else { b'-' });
                }
                buf.extend_from_slice(t);
            }
            check_pair(&base, &buf, "separator mask", l, coll);
        }
    }
    if combos {
        for s in 0..nstyles {
            for m in 1..nseps {
                buf.clear();
                for (i, t) in tokens.iter().enumerate() {
                    if i > 0 {
                        buf.push(if (m >> (i - 1)) & 1 == 1 { b'_' } else { b'-' });
                    }
                    style(t, (s >> (2 * i)) & 3, &mut buf);
                }
                check_pair(&base, &buf, "case style x separator mask", l, coll);
            }
        }
    }
}

fn permutations(n: usize) -> Vec<Vec<usize>> {
    fn rec(cur: &mut Vec<usize>, used: &mut Vec<bool>, n: usize, out: &mut Vec<Vec<usize>>) {
        if cur.len() == n {
            out.push(cur.clone());
            return;
        }
        for i in 0..n {
            if !used[i] {
                used[i] = true;
                cur.push(i);
                rec(cur, used, n, out);
                cur.pop();
                used[i] = false;
            }
        }
    }
    let mut out = vec![];
    rec(&mut vec![], &mut vec![false; n], n, &mut out);
    out
}

/// all permutations for n <= 4; for longer groups every rotation, the reversal and every
/// transposition (a generating family of the symmetric group, O(n^2) instead of n!)
fn perm_family(n: usize) -> Vec<Vec<usize>> {
    if n <= 4 {
        return permutations(n);
    }
    let id: Vec<usize> = (0..n).collect();
    let mut out = vec![];
    for r in 1..n {
        let mut p = id.clone();
        p.rotate_left(r);
        out.push(p);
    }
    let mut rev = id.clone();
    rev.reverse();
    out.push(rev);
    for i in 0..n {
        for j in (i + 1)..n {
            let mut p = id.clone();
            p.swap(i, j);
            out.push(p);
        }
    }
    out
}

fn render(tokens: &[Vec<u8>], upper_us: bool, out: &mut Vec<u8>) {
    out.clear();
    for (i, t) in tokens.iter().enumerate() {
        if i > 0 {
            out.push(if upper_us { b'_' } else { b'-' });
        }
        if upper_us {
            out.extend(t.iter().map(|b| b.to_ascii_uppercase()));
        } else {
            out.extend_from_slice(t);
        }
    }
}

/// structured transformations of one skeleton (the generator knows where the groups are)
pub fn structured(sk: &Skeleton, l: &mut Local, coll: &Collector) {
    let mut basev = vec![];
    join(&sk.tokens, &mut basev);
    let base = Base::new(&basev);
    if matches!(base.loc, R::Ok(..)) {
        l.nontrivial += 1;
    } else {
        // every skeleton is well-formed: the C03 check reports that; here the pair law still applies
    }
    let mut buf = vec![];
    let mut emit = |toks: &[Vec<u8>], what: &'static str, l: &mut Local| {
        for upper_us in [false, true] {
            render(toks, upper_us, &mut buf);
            check_pair(&base, &buf, what, l, coll);
        }
    };
    for g in &sk.groups {
        match g {
            Group::Variants(s, e) | Group::Attrs(s, e) => {
                let what: &'static str = if matches!(g, Group::Variants(..)) { "variant order/repetition" } else { "attribute order/repetition" };
                let n = e - s;
                for p in perm_family(n) {
                    let mut t = sk.tokens.clone();
                    for (k, &src) in p.iter().enumerate() {
                        t[s + k] = sk.tokens[s + src].clone();
                    }
                    emit(&t, what, l);
                }
                for i in *s..*e {
                    // duplicate element i at every position of the group
                    for at in *s..=*e {
                        let mut t = sk.tokens.clone();
                        t.insert(at, sk.tokens[i].clone());
                        emit(&t, what, l);
                    }
                }
            }
            Group::Keywords(rs) | Group::Tfields(rs) => {
                let what: &'static str = if matches!(g, Group::Keywords(..)) { "keyword order" } else { "tfield order" };
                // distinct keys only (the property's wording)
                let keys: Vec<Vec<u8>> = rs.iter().map(|(s, _)| sk.tokens[*s].to_ascii_lowercase()).collect();
                let mut uniq = keys.clone();
                uniq.sort();
                uniq.dedup();
                if uniq.len() != keys.len() {
                    continue;
                }
                let (gs, ge) = (rs[0].0, rs[rs.len() - 1].1);
                for p in perm_family(rs.len()) {
                    let mut t: Vec<Vec<u8>> = sk.tokens[..gs].to_vec();
                    for &src in &p {
                        t.extend_from_slice(&sk.tokens[rs[src].0..rs[src].1]);
                    }
                    t.extend_from_slice(&sk.tokens[ge..]);
                    emit(&t, what, l);
                }
            }
            Group::UT(a, b) => {
                let (first, second) = if a.0 < b.0 { (a, b) } else { (b, a) };
                let mut t: Vec<Vec<u8>> = sk.tokens[..first.0].to_vec();
                t.extend_from_slice(&sk.tokens[second.0..second.1]);
                t.extend_from_slice(&sk.tokens[first.0..first.1]);
                t.extend_from_slice(&sk.tokens[second.1..]);
                emit(&t, "relative order of -u- and -t-", l);
            }
        }
    }
    // the plain rendering pair (UPPER + '_') for every skeleton
    emit(&sk.tokens, "UPPER case and '_' separators", l);
}

pub fn run_c09(ctx: &Ctx) -> Report {
    let mut rep = Report::new();
    let coll = std::mem::take(&mut rep.collector);
    let core = sigma_core();
    let full = sigma_full(ctx.seed);
    let mut total_pairs = 0u64;
    let mut nontrivial = 0u64;
    let mut all = Local::new();
    // (a1) per-letter masks, Sigma_core to depth 3 (thorough 4)
    // (a2) per-token styles and separator masks, Sigma_core to depth 4 (5), Sigma_full to depth 3 (4)
    let plans: Vec<(&str, &Vec<Vec<u8>>, u32, u32, bool, bool, bool, bool)> = if ctx.quick() {
        vec![
            ("a1.core<=3.letter_masks", &core, 1, 3, true, false, false, false),
            ("a2.core<=3.styles_x_seps", &core, 1, 3, false, true, true, true),
            ("a2.core=4.styles+seps", &core, 4, 4, false, true, true, false),
            ("a2.full<=2.styles_x_seps", &full, 1, 2, false, true, true, true),
            ("a2.full=3.styles+seps", &full, 3, 3, false, true, true, false),
        ]
    } else {
        vec![
            ("a1.core<=4.letter_masks", &core, 1, 4, true, false, false, false),
            ("a2.core<=4.styles_x_seps", &core, 1, 4, false, true, true, true),
            ("a2.core=5.styles+seps", &core, 5, 5, false, true, true, false),
            ("a2.full<=3.styles_x_seps", &full, 1, 3, false, true, true, true),
            ("a2.full=4.styles+seps", &full, 4, 4, false, true, true, false),
        ]
    };
    for (name, sigma, dmin, dmax, lm, stl, sep, combo) in plans {
        let tree = TokenTree::new(name, sigma.clone(), dmin, dmax, false);
        let st = par_range(ctx, name, tree.total(), 64, &|idx, l| {
            let mut b = vec![];
            tree.decode(idx, &mut b);
            // tokens of this sequence (tokens contain no separator)
            let toks: Vec<&[u8]> = b.split(|c| *c == b'-').collect();
            raw_transforms(&toks, lm, stl, sep, combo, l, &coll);
        });
        let pairs = st.local.counters[0];
        total_pairs += pairs;
        nontrivial += st.local.nontrivial;
        let e = rep.extra.entry("engines".to_string()).or_insert_with(|| json!({}));
        e[name] = json!({"base_inputs": tree.total(), "pairs": pairs, "pairs_where_transformed_parses": st.local.counters[1],
                         "alphabet_size": sigma.len(), "depth": [dmin, dmax], "wall_s": (st.wall * 100.0).round() / 100.0});
        all.merge(&st.local);
    }
    // (b) structured permutations / duplications on the skeletons
    let mut skels = skeletons(true, !ctx.quick());
    skels.extend(long_skeletons());
    // order hazards (integer-vs-text order, length-first order, prefix-related elements)
    skels.extend(order_skeletons());
    let st = par_range(ctx, "b.structured", skels.len() as u64, 16, &|idx, l| structured(&skels[idx as usize], l, &coll));
    total_pairs += st.local.counters[0];
    nontrivial += st.local.nontrivial;
    {
        let e = rep.extra.entry("engines".to_string()).or_insert_with(|| json!({}));
        e["b.structured"] = json!({"skeletons": skels.len(), "pairs": st.local.counters[0], "pairs_where_transformed_parses": st.local.counters[1],
            "transformations": "every permutation (groups of <= 4; for the long skeletons' groups of 5..8 every rotation, the reversal and every transposition) and every single duplication of the variant group and of the attribute group, the same permutation family of keyword groups and of tfield groups with distinct keys, both orders of -u-/-t-, each also rendered in UPPER case with '_'",
            "wall_s": (st.wall * 100.0).round() / 100.0});
    }
    all.merge(&st.local);
    // (c) count ladder: the list of n elements in every order shape / with one repeat against the
    // same list in ascending order, for every n -- a sort or de-duplication that changes its
    // algorithm at a count, or a limit on the number of subtags, shows as a dependence on order or
    // repetition only beyond that count
    {
        use super::counts::{count_bounds, input_text, specs, Spec};
        let (n_max, rep_max) = count_bounds(ctx);
        // (dimension, repeats are within the property's wording)
        let dims: [(&str, bool, &'static str); 5] = [
            ("variants", true, "variant order/repetition (count ladder)"),
            ("tlang_variants", true, "tlang variant order/repetition (count ladder)"),
            ("attributes", true, "attribute order/repetition (count ladder)"),
            ("keywords", false, "keyword order (count ladder)"),
            ("tfields", false, "tfield order (count ladder)"),
        ];
        let groups: Vec<(usize, usize)> = (0..dims.len()).flat_map(|d| (0..=n_max).map(move |n| (d, n))).collect();
        let all_specs = specs(n_max, rep_max);
        let st = par_range(ctx, "c.count", groups.len() as u64, 1, &|gi, l| {
            let (d, n) = groups[gi as usize];
            let (dim, reps, what) = dims[d];
            let basev = input_text(dim, &Spec { n, kind: 0, a: 0, b: 0 }).into_bytes();
            let base = Base::new(&basev);
            if matches!(base.loc, R::Ok(..)) {
                l.nontrivial += 1;
            }
            for sp in all_specs.iter().filter(|sp| sp.n == n && sp.kind != 0 && (reps || !sp.has_repeat())) {
                let t = input_text(dim, sp);
                check_pair(&base, t.as_bytes(), what, l, &coll);
                let up = t.to_ascii_uppercase().replace('-', "_");
                check_pair(&base, up.as_bytes(), what, l, &coll);
            }
        });
        total_pairs += st.local.counters[0];
        nontrivial += st.local.nontrivial;
        let e = rep.extra.entry("engines".to_string()).or_insert_with(|| json!({}));
        e["c.count"] = json!({"groups": groups.len(), "pairs": st.local.counters[0], "pairs_where_transformed_parses": st.local.counters[1], "n_max": n_max, "rep_max": rep_max,
            "transformations": "for every list position with set semantics (variants, tlang variants, attributes; keywords and tfields with distinct keys) and every n <= n_max: the list in descending order, every rotation, a fixed scramble, and (variants, attributes; n <= rep_max) with a second copy of element i at position j for every i, j -- each against the ascending list, each also in UPPER case with '_'",
            "wall_s": (st.wall * 100.0).round() / 100.0});
        all.merge(&st.local);
    }
    rep.collector = coll;
    rep.states = total_pairs;
    rep.transitions = total_pairs;
    rep.traces = total_pairs;
    rep.evaluations = total_pairs;
    rep.distinct_nontrivial = nontrivial;
    rep.samples = all.samples_json(4);
    rep.extra.insert("pairs".into(), json!(total_pairs));
    rep.extra.insert("pairs_where_transformed_parses".into(), json!(all.counters[1]));
    if all.counters[1] == 0 || all.counters[1] == total_pairs {
        rep.engine_failures.push("vacuity guard: transformed inputs all failed or all parsed".into());
    }
    rep.rule = "E1/E2 metamorphic pairs: for every base token sequence (class alphabets, stated depths) every per-letter case mask (<=10 letters), every per-token case-style assignment, every separator mask and their combinations; for every skeleton every permutation/duplication of its unordered groups and the -u-/-t- swap. states = (base, transformed) pairs executed; both Locale and LanguageIdentifier results are compared (both Err, or both Ok with == and identical to_string). distinct_nontrivial = base inputs that parse as a Locale (distinct by construction).".into();
    rep
}

pub fn replay(text: &str, coll: &Collector) {
    let Some(rest) = text.strip_prefix("mpair:") else { return };
    let mut it = rest.split('|');
    let (Some(a), Some(b)) = (it.next().and_then(unhex), it.next().and_then(unhex)) else { return };
    let base = Base::new(&a);
    let mut l = Local::new();
    check_pair(&base, &b, "replay", &mut l, coll);
}

//! Count ladder (DESIGN 0.8): every list of the data model at every length 0..=N, in every
//! "shape" of order that a sort / de-duplication / lookup routine can be sensitive to.
//!
//! The token trees, skeletons and E3 menus stop at a handful of elements per list.  A change can
//! put its boundary at a COUNT instead: an inline buffer of 8 that spills to the heap, a linear
//! search that becomes a binary search above 8 or 16 elements, a `Vec` that is compacted when it
//! reaches its capacity, a stack array of 16.  Such a change is exact below the threshold and its
//! failure above it usually needs a particular ORDER of the elements too (the search runs on data
//! that is not sorted yet; the duplicate straddles the inline/overflow boundary).
//!
//! A list is described by a `Spec`: n distinct elements e_0 < e_1 < ... < e_{n-1} of a generated
//! alphabet, written in one of these orders
//!   asc            e_0 .. e_{n-1}
//!   desc           e_{n-1} .. e_0
//!   rot(r)         e_r .. e_{n-1} e_0 .. e_{r-1}            for every r in 1..n
//!   scr            e_{(7 i + 3) mod n}-like permutation (a fixed scramble)
//!   rep(base,i,j)  base order (desc | scr) with a second copy of its i-th element inserted at
//!                  position j, for every i in 0..n and j in 0..=n   (n <= rep_max)
//! The enumeration over (n, shape) is complete for the stated bounds.
//!
//! Two uses:
//!  * `count_inputs`: the lists as TEXT in every list position of the grammar (variants, tlang
//!    variants, attributes, keyword values, keywords, tfield values, tfields, private tags) --
//!    space E2.count of the input sweeps (C01-C05, C09, C12, C13, C17, C19);
//!  * `run_count_histories`: the lists through the typed API -- `from_parts`, `set_variants`,
//!    `set_keyword(k, list)`, `set_tfield(k, list)`, `set_tlang` as single calls, and element by
//!    element through `set_attribute`/`remove_attribute`, `set_keyword`/`remove_keyword`,
//!    `set_tfield`/`remove_tfield`, `add_tag`/`remove_tag` as LINEAR HISTORIES of up to 3n calls,
//!    every intermediate state checked with the complete per-state invariant set of the E3
//!    harnesses (`Harness::check`: getters, iterator laws, has_*, to_string, re-parse, parts,
//!    conversions, comparisons) against the reference model.

use super::history::{default_state, Act, Fault, Harness, Probes, St};
use crate::engine::*;
use serde_json::json;
use std::str::FromStr;
use std::sync::OnceLock;
use unic_langid_impl::subtags::{Language, Variant};
use unic_langid_impl::LanguageIdentifier;
use unic_locale_impl::Locale;

type S = &'static str;

#[derive(Clone, Copy, Debug, PartialEq, Eq)]
pub struct Spec {
    pub n: usize,
    /// 0 asc, 1 desc, 2 rot(a), 3 scr, 4 rep(desc, a, b), 5 rep(scr, a, b)
    pub kind: u8,
    pub a: usize,
    pub b: usize,
}

fn scramble(n: usize) -> Vec<usize> {
    // a fixed permutation of 0..n that is neither sorted nor reversed nor a rotation (n >= 4):
    // multiplication by a unit modulo n, shifted
    if n < 2 {
        return (0..n).collect();
    }
    let mut m = 7;
    while gcd(m, n) != 1 {
        m += 2;
    }
    (0..n).map(|i| (i * m + 3) % n).collect()
}

fn gcd(a: usize, b: usize) -> usize {
    if b == 0 {
        a
    } else {
        gcd(b, a % b)
    }
}

impl Spec {
    pub fn indices(&self) -> Vec<usize> {
        let n = self.n;
        let base = |k: u8| -> Vec<usize> {
            match k {
                0 => (0..n).collect(),
                1 => (0..n).rev().collect(),
                _ => scramble(n),
            }
        };
        match self.kind {
            0 | 1 | 3 => base(self.kind),
            2 => (0..n).map(|i| (i + self.a) % n.max(1)).collect(),
            4 | 5 => {
                let mut v = base(if self.kind == 4 { 1 } else { 3 });
                let e = v[self.a];
                v.insert(self.b, e);
                v
            }
            _ => vec![],
        }
    }
    pub fn encode(&self) -> String {
        format!("{}/{}/{}/{}", self.n, self.kind, self.a, self.b)
    }
    pub fn decode(s: &str) -> Option<Spec> {
        let p: Vec<usize> = s.split('/').map(|x| x.parse().ok()).collect::<Option<Vec<_>>>()?;
        if p.len() != 4 || p[1] > 5 {
            return None;
        }
        let sp = Spec { n: p[0], kind: p[1] as u8, a: p[2], b: p[3] };
        let ok = match sp.kind {
            2 => sp.a < sp.n.max(1),
            4 | 5 => sp.a < sp.n && sp.b <= sp.n,
            _ => true,
        };
        if ok && sp.n <= 70000 {
            Some(sp)
        } else {
            None
        }
    }
    pub fn has_repeat(&self) -> bool {
        self.kind >= 4
    }
}

/// every list shape for n in 0..=n_max; the O(n^2) repeat shapes for n <= rep_max
pub fn specs(n_max: usize, rep_max: usize) -> Vec<Spec> {
    let mut out = vec![];
    for n in 0..=n_max {
        out.push(Spec { n, kind: 0, a: 0, b: 0 });
        if n >= 2 {
            out.push(Spec { n, kind: 1, a: 0, b: 0 });
            for r in 1..n {
                out.push(Spec { n, kind: 2, a: r, b: 0 });
            }
        }
        if n >= 4 {
            out.push(Spec { n, kind: 3, a: 0, b: 0 });
        }
        if n >= 1 && n <= rep_max {
            for kind in [4u8, 5] {
                if kind == 5 && n < 4 {
                    continue;
                }
                for i in 0..n {
                    for j in 0..=n {
                        out.push(Spec { n, kind, a: i, b: j });
                    }
                }
            }
        }
    }
    out
}

/// the specs without a repeat (used for the element-by-element histories, where re-insertion is a
/// phase of the history itself)
pub fn order_specs(n_max: usize) -> Vec<Spec> {
    specs(n_max, 0)
}

pub const DIMS: [&str; 8] = ["variants", "tlang_variants", "attributes", "keyword_values", "keywords", "tfield_values", "tfields", "tags"];

/// elements per generated alphabet (936 keyword keys and 260 tfield keys exist in all)
pub const ALPHABET_SIZE: usize = 1100;
/// the main ladder's harness probes this many elements of every alphabet (more than its longest list)
pub const PROBE_PREFIX: usize = 100;

struct Alphabets {
    variants: Vec<S>,
    words: Vec<S>,
    ukeys: Vec<S>,
    tkeys: Vec<S>,
    tags: Vec<S>,
}

fn leak(s: String) -> S {
    Box::leak(s.into_boxed_str())
}

fn alphabets() -> &'static Alphabets {
    static A: OnceLock<Alphabets> = OnceLock::new();
    A.get_or_init(|| {
        let m = ALPHABET_SIZE;
        let sorted_n = |mut v: Vec<String>, want: usize| -> Vec<S> {
            v.sort();
            v.dedup();
            assert!(v.len() >= want, "alphabet too small: {}", v.len());
            v.truncate(want);
            v.into_iter().map(leak).collect()
        };
        let sorted = |v: Vec<String>| -> Vec<S> { sorted_n(v, m) };
        // variants: 4 characters with a leading digit, and 5..8 alphanumerics, mixed
        let mut vs = vec![];
        for i in 0..2 * m {
            let x = (i * 7919 + 17) % 100000;
            vs.push(match i % 4 {
                0 => format!("{}{:03}", i % 10, x % 1000),
                1 => format!("{}{:04}", (b'a' + (i % 26) as u8) as char, x % 10000),
                2 => format!("{}{:05}z", (b'a' + ((i * 5) % 26) as u8) as char, x),
                _ => format!("{}{:07}", (b'a' + ((i * 11) % 26) as u8) as char, x * 37 % 10000000),
            });
        }
        // attribute / type / tvalue words: 3..8 alphanumerics, never "true"
        let mut ws = vec![];
        for i in 0..2 * m {
            let x = (i * 6007 + 5) % 100000;
            ws.push(match i % 4 {
                0 => format!("{}{:02}", (b'a' + (i % 26) as u8) as char, x % 100),
                1 => format!("{}{:03}", i % 10, x % 1000),
                2 => format!("{}{:05}", (b'a' + ((i * 3) % 26) as u8) as char, x),
                _ => format!("{}{:06}q", (b'a' + ((i * 7) % 26) as u8) as char, x * 13 % 1000000),
            });
        }
        let mut uk = vec![];
        for a in (b'a'..=b'z').chain(b'0'..=b'9') {
            for b in b'a'..=b'z' {
                uk.push(format!("{}{}", a as char, b as char));
            }
        }

        let mut tk = vec![];
        for a in b'a'..=b'z' {
            for d in b'0'..=b'9' {
                tk.push(format!("{}{}", a as char, d as char));
            }
        }

        // private tags: 1..8 alphanumerics
        let mut tg = vec![];
        for i in 0..2 * m {
            let x = (i * 4973 + 29) % 100000;
            tg.push(match i % 5 {
                0 => format!("{}", (b'a' + (i % 26) as u8) as char),
                1 => format!("{}{}", i % 10, (b'a' + ((i * 3) % 26) as u8) as char),
                2 => format!("{}{:03}", (b'a' + ((i * 5) % 26) as u8) as char, x % 1000),
                3 => format!("{:05}", x),
                _ => format!("{}{:07}", (b'a' + ((i * 7) % 26) as u8) as char, x * 31 % 10000000),
            });
        }
        Alphabets { variants: sorted(vs), words: sorted(ws), ukeys: sorted_n(uk, 936), tkeys: sorted_n(tk, 260), tags: sorted(tg) }
    })
}

/// the generated variant alphabet (sorted ascending), for other checks that want long lists
pub fn variant_alphabet() -> &'static [S] {
    elems("variants")
}

fn elems_big(dim: &str) -> &'static [S] {
    let a = alphabets();
    match dim {
        "variants" | "tlang_variants" => &a.variants,
        "attributes" | "keyword_values" | "tfield_values" => &a.words,
        "keywords" => &a.ukeys,
        "tfields" => &a.tkeys,
        _ => &a.tags,
    }
}

/// the ladder alphabet of a dimension: PROBE_PREFIX elements spread evenly over the big (sorted)
/// alphabet, so that short lists already mix every length and class pattern
fn elems(dim: &str) -> &'static [S] {
    static SMALL: OnceLock<Vec<(&'static str, Vec<S>)>> = OnceLock::new();
    let all = SMALL.get_or_init(|| {
        DIMS.iter()
            .map(|d| {
                let big = elems_big(d);
                let stride = (big.len() / PROBE_PREFIX).max(1);
                (*d, (0..PROBE_PREFIX).map(|j| big[j * stride]).collect())
            })
            .collect()
    });
    &all.iter().find(|x| x.0 == dim).expect("dimension").1
}

/// the alphabet a list of n elements is drawn from
fn elems_for(dim: &str, n: usize) -> &'static [S] {
    if n + 3 <= PROBE_PREFIX {
        elems(dim)
    } else {
        elems_big(dim)
    }
}

/// the text of one list in its grammatical position
pub fn input_text(dim: &str, sp: &Spec) -> String {
    text_of(dim, &sp.indices())
}

/// the text of an arbitrary index list (indices into the dimension's alphabet)
pub fn text_of(dim: &str, idx: &[usize]) -> String {
    let n_for = idx.iter().copied().max().map(|m| m + 1).unwrap_or(0);
    let al = elems_for(dim, n_for);
    let words = &alphabets().words;
    let list: Vec<String> = match dim {
        // a keyword / tfield is "key-value"; every fifth key stands alone (value `true`)
        "keywords" | "tfields" => idx.iter().map(|&i| if i % 5 == 4 { al[i].to_string() } else { format!("{}-{}", al[i], words[(i * 3 + 1) % words.len()]) }).collect(),
        _ => idx.iter().map(|&i| al[i].to_string()).collect(),
    };
    wrap(dim, &list.join("-"))
}

/// a list body in its grammatical position
fn wrap(dim: &str, body: &str) -> String {
    let dash = if body.is_empty() { "" } else { "-" };
    match dim {
        "variants" => format!("en{}{}", dash, body),
        "tlang_variants" => format!("en-t-de{}{}-h0-hybrid", dash, body),
        "attributes" => format!("en-u{}{}-ca-buddhist", dash, body),
        "keyword_values" => format!("en-u-ca{}{}", dash, body),
        "keywords" => format!("en-u{}{}", dash, body),
        "tfield_values" => format!("en-t-h0{}{}", dash, body),
        "tfields" => format!("en-t{}{}", dash, body),
        _ => format!("en-x{}{}", dash, body),
    }
}

// ------------------------------------------------------------------------------------------
// wide counts: the element counts at which an integer type overflows or a size cap sits
// ------------------------------------------------------------------------------------------

/// n around every power of two from 64 to 1024 [65536]: a counter, an index or a length kept in a
/// `u8` / `u16`, a 1 KiB / 4 KiB / 64 KiB cap on the input or output
pub fn wide_counts(quick: bool) -> Vec<usize> {
    let tops: &[usize] = if quick { &[64, 128, 256, 512, 1024] } else { &[64, 128, 256, 512, 1024, 4096, 65536] };
    tops.iter().flat_map(|t| [t - 1, *t, t + 1]).collect()
}

/// at least `n` distinct valid elements of the dimension, sorted ascending (fewer when the
/// dimension has fewer: 936 keyword keys, 260 tfield keys)
fn wide_elems(dim: &str, n: usize) -> Vec<String> {
    let mut v: Vec<String> = match dim {
        "variants" | "tlang_variants" => (0..n).map(|i| format!("v{:07}", (i * 7919 + 1) % 10_000_000)).collect(),
        "attributes" | "keyword_values" | "tfield_values" => (0..n).map(|i| format!("w{:06}", (i * 6007 + 1) % 1_000_000)).collect(),
        "keywords" => {
            let mut k = vec![];
            for a in (b'a'..=b'z').chain(b'0'..=b'9') {
                for b in b'a'..=b'z' {
                    k.push(format!("{}{}", a as char, b as char));
                }
            }
            k
        }
        "tfields" => {
            let mut k = vec![];
            for a in b'a'..=b'z' {
                for d in b'0'..=b'9' {
                    k.push(format!("{}{}", a as char, d as char));
                }
            }
            k
        }
        _ => (0..n).map(|i| format!("p{:06}", (i * 4973 + 1) % 1_000_000)).collect(),
    };
    v.sort();
    v.dedup();
    v.truncate(n);
    v
}

/// Space E2.count.wide: for every dimension and every wide n the list ascending, descending and
/// ascending with its first element repeated at the end; the variant lists also followed by a
/// script / region (ill-formed: a position that has wrapped around would accept it).
pub fn wide_inputs(quick: bool, locales: bool) -> Vec<Vec<u8>> {
    let mut out = std::collections::BTreeSet::new();
    for dim in DIMS {
        if !locales && dim != "variants" {
            continue;
        }
        for n in wide_counts(quick) {
            let el = wide_elems(dim, n);
            if el.len() < n {
                continue;
            }
            let item = |i: usize| -> String {
                match dim {
                    "keywords" | "tfields" => if i % 5 == 4 { el[i].clone() } else { format!("{}-w{:05}", el[i], i) },
                    _ => el[i].clone(),
                }
            };
            let asc: Vec<String> = (0..n).map(item).collect();
            let desc: Vec<String> = (0..n).rev().map(item).collect();
            let mut rep = desc.clone();
            rep.push(item(n - 1));
            for l in [&asc, &desc, &rep] {
                out.insert(wrap(dim, &l.join("-")).into_bytes());
            }
            out.insert(wrap(dim, &asc.join("-")).to_ascii_uppercase().replace('-', "_").into_bytes());
            if dim == "variants" {
                for tail in ["Latn", "US", "419", "en"] {
                    out.insert(format!("{}-{}", wrap(dim, &asc.join("-")), tail).into_bytes());
                }
            }
            if dim == "tlang_variants" {
                out.insert(format!("en-t-de-{}-Latn", asc.join("-")).into_bytes());
            }
        }
    }
    out.into_iter().collect()
}

/// Space E2.count: every (dimension, spec) as text; the asc / desc / scr shapes also in upper case
/// with `_` separators (a threshold combined with the other separator or letter case).
pub fn count_inputs(n_max: usize, rep_max: usize, locales: bool) -> Vec<Vec<u8>> {
    let mut out = std::collections::BTreeSet::new();
    let sps = specs(n_max, rep_max);
    for dim in DIMS {
        if !locales && dim != "variants" {
            continue;
        }
        for sp in &sps {
            let t = input_text(dim, sp);
            if matches!(sp.kind, 0 | 1 | 3) {
                out.insert(t.to_ascii_uppercase().replace('-', "_").into_bytes());
                // exactly one `_`, as the first separator
                out.insert(t.replacen('-', "_", 1).into_bytes());
            }
            out.insert(t.into_bytes());
        }
    }
    out.into_iter().collect()
}

pub fn count_bounds(ctx: &Ctx) -> (usize, usize) {
    if ctx.quick() {
        (40, 34)
    } else {
        (72, 72)
    }
}

// ------------------------------------------------------------------------------------------
// typed route: single calls with a whole list, and element-by-element histories
// ------------------------------------------------------------------------------------------

fn count_harness() -> Harness {
    // probes: every element of the alphabets that can occur (and, because the alphabets are longer
    // than any list, always some that do not)
    Harness {
        name: "H-count",
        inits: vec![("default".to_string(), default_state())],
        menu: vec![],
        probes: Probes {
            attrs: elems("attributes").to_vec(),
            keys: elems("keywords").to_vec(),
            tkeys: elems("tfields").to_vec(),
            tags: elems("tags").to_vec(),
            variants: elems("variants").to_vec(),
        },
        tag_cap: usize::MAX,
        likely: None,
    }
}

/// the calls of one case; `None` = unknown dimension
fn history_of(dim: &str, sp: &Spec) -> Option<Vec<Act>> {
    let idx = sp.indices();
    let al = elems_for(dim, sp.n);
    let words = &alphabets().words;
    let list: Vec<S> = idx.iter().map(|&i| al[i]).collect();
    let val = |i: usize| -> Vec<S> { if i % 5 == 4 { vec![] } else { vec![words[(i * 3 + 1) % words.len()]] } };
    // removal order: the insertion order rotated by a third
    let rot: Vec<usize> = if idx.is_empty() { vec![] } else { (0..idx.len()).map(|k| idx[(k + idx.len() / 3) % idx.len()]).collect() };
    Some(match dim {
        // whole-list calls (the list may contain a repeat): on an empty receiver, and again on a
        // receiver that already holds exactly as many DISTINCT elements as the new list is long (an
        // in-place path that re-uses the existing storage when the lengths agree)
        "variants" => {
            let same: Vec<S> = (0..list.len()).map(|i| al[i.min(al.len() - 1)]).collect();
            vec![Act::SetVariants(list.clone()), Act::ClearVariants, Act::SetVariants(same), Act::SetVariants(list), Act::ClearVariants]
        }
        "tlang_variants" => {
            let tl = |l: &[S]| -> S { leak(format!("de{}{}", if l.is_empty() { "" } else { "-" }, l.join("-"))) };
            let same: Vec<S> = (0..list.len()).map(|i| al[i.min(al.len() - 1)]).collect();
            vec![Act::SetTlang(tl(&list)), Act::ClearTlang, Act::SetTlang(tl(&same)), Act::SetTlang(tl(&list)), Act::ClearTlang]
        }
        "keyword_values" => {
            let same: Vec<S> = (0..list.len()).map(|i| al[i.min(al.len() - 1)]).collect();
            vec![Act::SetKeyword("ca", list.clone()), Act::SetKeyword("nu", list.clone()), Act::RemoveKeyword("ca"), Act::SetKeyword("nu", same), Act::SetKeyword("nu", list)]
        }
        "tfield_values" => {
            let same: Vec<S> = (0..list.len()).map(|i| al[i.min(al.len() - 1)]).collect();
            vec![Act::SetTfield("h0", list.clone()), Act::SetTfield("k1", list.clone()), Act::RemoveTfield("h0"), Act::SetTfield("k1", same), Act::SetTfield("k1", list)]
        }
        // element by element: insert all, insert all again, remove all in another order
        "attributes" => {
            let mut h: Vec<Act> = list.iter().map(|x| Act::SetAttr(*x)).collect();
            h.extend(list.iter().map(|x| Act::SetAttr(*x)));
            h.extend(rot.iter().map(|&i| Act::RemoveAttr(al[i])));
            h
        }
        "keywords" => {
            let mut h: Vec<Act> = idx.iter().map(|&i| Act::SetKeyword(al[i], val(i))).collect();
            h.extend(idx.iter().map(|&i| Act::SetKeyword(al[i], val(i + 1))));
            h.extend(rot.iter().map(|&i| Act::RemoveKeyword(al[i])));
            h
        }
        "tfields" => {
            let mut h: Vec<Act> = idx.iter().map(|&i| Act::SetTfield(al[i], val(i))).collect();
            h.extend(idx.iter().map(|&i| Act::SetTfield(al[i], val(i + 1))));
            h.extend(rot.iter().map(|&i| Act::RemoveTfield(al[i])));
            h
        }
        "tags" => {
            // a multiset: every tag once, every other tag a second time, then removals
            let mut h: Vec<Act> = list.iter().map(|x| Act::AddTag(*x)).collect();
            h.extend(list.iter().step_by(2).map(|x| Act::AddTag(*x)));
            h.extend(rot.iter().map(|&i| Act::RemoveTag(al[i])));
            h.extend(rot.iter().step_by(3).map(|&i| Act::RemoveTag(al[i])));
            h
        }
        _ => return None,
    })
}

/// runs one case; returns (calls executed, faults with the index of the call they were seen after)
fn run_case(h: &Harness, dim: &str, sp: &Spec) -> (u64, Vec<(usize, Fault)>) {
    let mut out: Vec<(usize, Fault)> = vec![];
    let mut calls = 0u64;
    let Some(acts) = history_of(dim, sp) else { return (0, out) };
    let mut st: St = default_state();
    for (k, a) in acts.iter().enumerate() {
        let mut f = vec![];
        calls += 1;
        match h.step(&st, a, &mut f) {
            Some((ns, _)) => {
                st = ns;
                heartbeat();
                h.check(&st, &mut f);
            }
            None => {}
        }
        heartbeat();
        if !f.is_empty() {
            out.extend(f.into_iter().map(|x| (k, x)));
            // a violating state is reported and not continued from (as in the E3 explorer)
            return (calls, out);
        }
    }
    // the typed constructor route for variant lists: from_parts with the list as given
    if dim == "variants" {
        let idx = sp.indices();
        let al = elems_for(dim, sp.n);
        let vs: Vec<Variant> = idx.iter().map(|&i| Variant::from_str(al[i]).expect("alphabet variant")).collect();
        let r = guard_total(|| {
            let en = Language::from_str("en").expect("en");
            let id = LanguageIdentifier::from_parts(en, None, None, &vs);
            let loc = Locale::from_parts(en, None, None, &vs, None);
            (id, loc)
        });
        calls += 2;
        match r {
            Ok((id, loc)) => {
                let mut model = refmodel::MLocale::default();
                model.id.lang = Some("en".into());
                model.id.variants = idx.iter().map(|&i| al[i].to_string()).collect();
                let mut f = vec![];
                if loc.id != id {
                    f.push(Fault { sub: "c17.parts", class: "Locale::from_parts(..).id != LanguageIdentifier::from_parts(..)".into(), expected: format!("{:?}", id), observed: format!("{:?}", loc.id) });
                }
                let st = St { imp: loc, model };
                h.check(&st, &mut f);
                // from_parts == parsing the joined text (order as given, repeats kept)
                let joined = input_text("variants", sp);
                match LanguageIdentifier::from_str(&joined) {
                    Ok(p) if p == id => {}
                    o => f.push(Fault { sub: "c17.parts_parse", class: "from_parts differs from parsing the joined string".into(), expected: format!("{:?}", id), observed: format!("{:?} for {}", o.map(|x| x.to_string()), joined) }),
                }
                out.extend(f.into_iter().map(|x| (usize::MAX, x)));
            }
            Err(p) => {
                out.push((usize::MAX, Fault { sub: "c01.panic", class: "from_parts panics".into(), expected: "a value".into(), observed: p.clone() }));
                out.push((usize::MAX, Fault { sub: "c17.panic", class: "from_parts panics".into(), expected: "a value".into(), observed: p }));
            }
        }
    }
    (calls, out)
}

fn case_text(dim: &str, sp: &Spec) -> String {
    format!("count:{}:{}", dim, sp.encode())
}

/// H-count: every (dimension, spec) through the typed API; keeps the faults whose sub-check starts
/// with one of `prefixes`.
pub fn run_count_histories(ctx: &Ctx, rep: &mut Report, prefixes: &[&str]) {
    let (n_max, rep_max) = count_bounds(ctx);
    let h = count_harness();
    let coll = std::mem::take(&mut rep.collector);
    let mut per_dim = serde_json::Map::new();
    let mut total_calls = 0u64;
    let mut total_cases = 0u64;
    for dim in DIMS {
        // whole-list dimensions take the repeat shapes; element-wise histories re-insert by design
        let whole = matches!(dim, "variants" | "tlang_variants" | "keyword_values" | "tfield_values");
        let sps = if whole { specs(n_max, rep_max) } else { order_specs(n_max) };
        let st = par_range(ctx, &format!("E3.count.{}", dim), sps.len() as u64, 8, &|i, l| {
            let sp = &sps[i as usize];
            let (calls, faults) = run_case(&h, dim, sp);
            l.counters[0] += calls;
            l.nontrivial += (sp.n > 0) as u64;
            for (k, f) in faults {
                if !prefixes.iter().any(|p| f.sub.starts_with(p)) {
                    continue;
                }
                let at = if k == usize::MAX { "from_parts".to_string() } else { format!("call {}", k + 1) };
                coll.push(
                    ((sp.n as u64) << 32) | i,
                    Violation { sub: f.sub, class: format!("[H-count {}] {}", dim, f.class), case: Case::Text(case_text(dim, sp)), expected: f.expected, observed: format!("{} (after {})", f.observed, at) },
                );
            }
        });
        total_calls += st.local.counters[0];
        total_cases += sps.len() as u64;
        per_dim.insert(dim.to_string(), json!({"cases": sps.len(), "calls": st.local.counters[0], "wall_s": (st.wall * 100.0).round() / 100.0}));
        rep.distinct_nontrivial += st.local.nontrivial;
    }
    rep.collector = coll;
    rep.states += total_calls;
    rep.transitions += total_calls;
    rep.traces += total_calls;
    rep.evaluations += total_calls;
    run_wide_histories(ctx, rep, prefixes);
    rep.extra.insert(
        "E3_count".into(),
        json!({
            "kind": "count ladder through the typed API: for every list dimension and every list of n = 0..=n_max distinct elements in the orders asc / desc / every rotation / a fixed scramble (and, for whole-list calls, with a second copy of element i inserted at position j for every i, j; n <= rep_max): whole-list calls (from_parts, set_variants, set_tlang, set_keyword(k, list), set_tfield(k, list)) and element-by-element linear histories (insert all, insert all again, remove all in a rotated order; private tags as a multiset), every intermediate state checked with the per-state invariants of the E3 harnesses against the reference model",
            "n_max": n_max, "rep_max": rep_max, "alphabet_size": ALPHABET_SIZE, "probed_prefix": PROBE_PREFIX, "cases": total_cases, "calls": total_calls, "dimensions": per_dim,
        }),
    );
}

/// a harness whose probes sit around one list: its first, middle and last elements and the two
/// alphabet elements just beyond it (non-members)
fn wide_harness(n: usize) -> Harness {
    let pick = |al: &[S]| -> Vec<S> {
        let mut v: Vec<usize> = vec![0, 1, 2, n / 2, n.saturating_sub(3), n.saturating_sub(2), n.saturating_sub(1), n, n + 1, 254, 255, 256, 257];
        v.retain(|i| *i < al.len());
        v.sort();
        v.dedup();
        v.into_iter().map(|i| al[i]).collect()
    };
    Harness {
        name: "H-count.wide",
        inits: vec![("default".to_string(), default_state())],
        menu: vec![],
        probes: Probes { attrs: pick(elems_for("attributes", n)), keys: pick(elems_for("keywords", n)), tkeys: pick(elems_for("tfields", n)), tags: pick(elems_for("tags", n)), variants: pick(elems_for("variants", n)) },
        tag_cap: usize::MAX,
        likely: None,
    }
}

/// H-count at the wide counts (2^k - 1, 2^k, 2^k + 1): whole-list calls up to 1025 [4097] elements,
/// element-by-element histories up to 257 [1025] elements
pub fn run_wide_histories(ctx: &Ctx, rep: &mut Report, prefixes: &[&str]) {
    let coll = std::mem::take(&mut rep.collector);
    let mut cases: Vec<(&'static str, Spec)> = vec![];
    let counts = wide_counts(ctx.quick());
    for dim in DIMS {
        let whole = matches!(dim, "variants" | "tlang_variants" | "keyword_values" | "tfield_values");
        let cap = if whole { if ctx.quick() { 1025 } else { 4097 } } else if ctx.quick() { 257 } else { 1025 };
        for &n in &counts {
            if n > cap || n + 2 > elems_big(dim).len() {
                continue;
            }
            cases.push((dim, Spec { n, kind: 0, a: 0, b: 0 }));
            cases.push((dim, Spec { n, kind: 1, a: 0, b: 0 }));
            if whole {
                cases.push((dim, Spec { n, kind: 4, a: n - 1, b: n }));
            }
        }
    }
    let st = par_range(ctx, "E3.count.wide", cases.len() as u64, 1, &|i, l| {
        let (dim, sp) = &cases[i as usize];
        let h = wide_harness(sp.n);
        let (calls, faults) = run_case(&h, dim, sp);
        l.counters[0] += calls;
        l.nontrivial += 1;
        for (k, f) in faults {
            if !prefixes.iter().any(|p| f.sub.starts_with(p)) {
                continue;
            }
            let at = if k == usize::MAX { "from_parts".to_string() } else { format!("call {}", k + 1) };
            coll.push(((sp.n as u64) << 32) | i, Violation { sub: f.sub, class: format!("[H-count.wide {}] {}", dim, f.class), case: Case::Text(format!("countw:{}:{}", dim, sp.encode())), expected: trunc_s(&f.expected, 400), observed: format!("{} (after {})", trunc_s(&f.observed, 400), at) });
        }
    });
    rep.collector = coll;
    rep.states += st.local.counters[0];
    rep.transitions += st.local.counters[0];
    rep.traces += st.local.counters[0];
    rep.evaluations += st.local.counters[0];
    rep.distinct_nontrivial += st.local.nontrivial;
    rep.extra.insert("E3_count_wide".into(), json!({"kind": "H-count at n = 2^k - 1, 2^k, 2^k + 1 elements (64 .. 1024 [4096]): whole-list calls (from_parts, set_variants, set_tlang, set_keyword(k, list), set_tfield(k, list)) ascending / descending / with a repeat at the end, and element-by-element histories (insert all, insert all again, remove all) up to 257 [1025] elements, every intermediate state checked; probes around the ends of the list and at positions 254..257",
        "cases": cases.len(), "calls": st.local.counters[0], "wall_s": (st.wall * 100.0).round() / 100.0}));
}

fn trunc_s(s: &str, n: usize) -> String {
    if s.len() <= n {
        s.to_string()
    } else {
        let mut e = n;
        while !s.is_char_boundary(e) {
            e -= 1;
        }
        format!("{}... ({} bytes)", &s[..e], s.len())
    }
}

pub fn replay(text: &str, coll: &Collector) {
    if let Some(rest) = text.strip_prefix("countw:") {
        let mut it = rest.splitn(2, ':');
        let (Some(dim), Some(spec)) = (it.next(), it.next()) else { return };
        let Some(sp) = Spec::decode(spec) else { return };
        if !DIMS.contains(&dim) || sp.n + 2 > elems_big(dim).len() {
            return;
        }
        let h = wide_harness(sp.n);
        let (_, faults) = run_case(&h, dim, &sp);
        for (k, f) in faults {
            let at = if k == usize::MAX { "from_parts".to_string() } else { format!("call {}", k + 1) };
            coll.push(0, Violation { sub: f.sub, class: format!("[H-count.wide {}] {}", dim, f.class), case: Case::Text(text.to_string()), expected: trunc_s(&f.expected, 400), observed: format!("{} (after {})", trunc_s(&f.observed, 400), at) });
        }
        return;
    }
    let Some(rest) = text.strip_prefix("count:") else { return };
    let mut it = rest.splitn(2, ':');
    let (Some(dim), Some(spec)) = (it.next(), it.next()) else { return };
    let Some(sp) = Spec::decode(spec) else { return };
    if !DIMS.contains(&dim) {
        return;
    }
    let h = count_harness();
    let (_, faults) = run_case(&h, dim, &sp);
    for (k, f) in faults {
        let at = if k == usize::MAX { "from_parts".to_string() } else { format!("call {}", k + 1) };
        coll.push(0, Violation { sub: f.sub, class: format!("[H-count {}] {}", dim, f.class), case: Case::Text(text.to_string()), expected: f.expected, observed: format!("{} (after {})", f.observed, at) });
    }
}

//! C18 — the compiled lookup tables are exactly what the CLDR source data determine.
//! Reads the compiled statics through the cfg(unic_locale_verif) hook; re-runs the
//! repository's generators and compares their output with the checked-in files.

use super::direction::load_dirref;
use super::universe::{cldr_version, load_likely};
use crate::engine::*;
use refmodel as rm;
use refmodel::likely::Dir;
use serde_json::json;
use std::collections::BTreeMap;
use unic_langid_impl::likelysubtags::verif_tables as tb;
use unic_langid_impl::verif_layout as lt;

type Val = (Option<u64>, Option<u32>, Option<u32>);

fn rviol(coll: &Collector, order: u64, sub: &'static str, class: String, what: String, expected: String, observed: String) {
    coll.push(order, Violation { sub, class, case: Case::Text(format!("table:{}", what)), expected, observed });
}

/// little-endian bytes, NUL-stripped; `None` if a non-NUL byte follows a NUL
fn decode(bytes: &[u8]) -> Option<Vec<u8>> {
    let n = bytes.iter().position(|b| *b == 0).unwrap_or(bytes.len());
    if bytes[n..].iter().any(|b| *b != 0) {
        return None;
    }
    Some(bytes[..n].to_vec())
}

#[derive(Clone, Copy, PartialEq)]
enum Kind {
    Lang,
    Script,
    Region,
}

/// (iii): the integer decodes to a well-formed subtag of its kind in canonical case
fn wf(kind: Kind, bytes: &[u8]) -> Result<String, String> {
    let Some(d) = decode(bytes) else {
        return Err(format!("bytes after NUL in {:?}", bytes));
    };
    let ok = match kind {
        Kind::Lang => rm::is_lang(&d) && rm::lower(&d).as_bytes() == &d[..],
        Kind::Script => rm::is_script(&d) && rm::title(&d).as_bytes() == &d[..],
        Kind::Region => rm::is_region(&d) && rm::upper(&d).as_bytes() == &d[..],
    };
    let s = String::from_utf8_lossy(&d).to_string();
    if ok {
        Ok(s)
    } else {
        Err(format!("{:?} is not a canonical well-formed {}", s, match kind { Kind::Lang => "language", Kind::Script => "script", Kind::Region => "region" }))
    }
}

struct Row {
    table: &'static str,
    index: usize,
    key: (Option<u64>, Option<u32>, Option<u32>),
    val: Val,
}

fn rows() -> Vec<Row> {
    let mut out = vec![];
    for (i, (l, v)) in tb::LANG_ONLY.iter().enumerate() {
        out.push(Row { table: "LANG_ONLY", index: i, key: (Some(*l), None, None), val: *v });
    }
    for (i, (l, r, v)) in tb::LANG_REGION.iter().enumerate() {
        out.push(Row { table: "LANG_REGION", index: i, key: (Some(*l), None, Some(*r)), val: *v });
    }
    for (i, (l, s, v)) in tb::LANG_SCRIPT.iter().enumerate() {
        out.push(Row { table: "LANG_SCRIPT", index: i, key: (Some(*l), Some(*s), None), val: *v });
    }
    for (i, (s, r, v)) in tb::SCRIPT_REGION.iter().enumerate() {
        out.push(Row { table: "SCRIPT_REGION", index: i, key: (None, Some(*s), Some(*r)), val: *v });
    }
    for (i, (s, v)) in tb::SCRIPT_ONLY.iter().enumerate() {
        out.push(Row { table: "SCRIPT_ONLY", index: i, key: (None, Some(*s), None), val: *v });
    }
    for (i, (r, v)) in tb::REGION_ONLY.iter().enumerate() {
        out.push(Row { table: "REGION_ONLY", index: i, key: (None, None, Some(*r)), val: *v });
    }
    out
}

fn join3(l: Option<&str>, s: Option<&str>, r: Option<&str>) -> String {
    let mut x = l.unwrap_or("und").to_string();
    for p in [s, r].into_iter().flatten() {
        x.push('-');
        x.push_str(p);
    }
    x
}

fn strictly_increasing<T: PartialOrd + std::fmt::Debug>(name: &'static str, keys: Vec<T>, coll: &Collector) {
    for i in 1..keys.len() {
        if !(keys[i - 1] < keys[i]) {
            rviol(coll, i as u64, "c18.order", format!("{} is not strictly increasing in its binary-search key order", name),
                  format!("{}[{}]", name, i), format!("{:?} < {:?}", keys[i - 1], keys[i]), "not increasing".into());
        }
    }
}

pub fn run_c18(ctx: &Ctx) -> Report {
    let mut rep = Report::new();
    let coll = std::mem::take(&mut rep.collector);
    let lk = load_likely(&ctx.repo);
    let all = rows();
    let mut seen: BTreeMap<String, String> = BTreeMap::new();
    let mut samples = vec![];
    for (n, row) in all.iter().enumerate() {
        let what = format!("{}[{}]", row.table, row.index);
        // (iii) well-formedness of every stored integer
        let mut bad = false;
        let kl = match row.key.0 {
            Some(l) => match wf(Kind::Lang, &l.to_le_bytes()) {
                Ok(s) => Some(s),
                Err(e) => {
                    rviol(&coll, n as u64, "c18.wellformed", format!("{}: key language not well-formed", row.table), what.clone(), "a canonical language subtag".into(), e);
                    bad = true;
                    None
                }
            },
            None => None,
        };
        let chk32 = |kind: Kind, v: Option<u32>, role: &str, bad: &mut bool| -> Option<String> {
            match v {
                Some(x) => match wf(kind, &x.to_le_bytes()) {
                    Ok(s) => Some(s),
                    Err(e) => {
                        rviol(&coll, n as u64, "c18.wellformed", format!("{}: {} not well-formed", row.table, role), what.clone(), "a canonical subtag".into(), e);
                        *bad = true;
                        None
                    }
                },
                None => None,
            }
        };
        let ks = chk32(Kind::Script, row.key.1, "key script", &mut bad);
        let kr = chk32(Kind::Region, row.key.2, "key region", &mut bad);
        let vl = match row.val.0 {
            Some(l) => match wf(Kind::Lang, &l.to_le_bytes()) {
                Ok(s) => Some(s),
                Err(e) => {
                    rviol(&coll, n as u64, "c18.wellformed", format!("{}: value language not well-formed", row.table), what.clone(), "a canonical language subtag".into(), e);
                    bad = true;
                    None
                }
            },
            None => {
                rviol(&coll, n as u64, "c18.wellformed", format!("{}: value has no language (lookup unwraps it)", row.table), what.clone(), "Some(language)".into(), "None".into());
                bad = true;
                None
            }
        };
        let vs = chk32(Kind::Script, row.val.1, "value script", &mut bad);
        let vr = chk32(Kind::Region, row.val.2, "value region", &mut bad);
        if bad {
            continue;
        }
        // (i) the entry exists in the JSON with this value; one entry per key
        let kl_opt = kl.as_deref().filter(|l| *l != "und");
        let key = join3(kl_opt, ks.as_deref(), kr.as_deref());
        let val = join3(vl.as_deref(), vs.as_deref(), vr.as_deref());
        if n % 997 == 0 {
            samples.push(json!({"row": what, "key": key, "value": val}));
        }
        if seen.insert(key.clone(), val.clone()).is_some() {
            rviol(&coll, n as u64, "c18.entries", "a CLDR key occurs in more than one table row".into(), what.clone(), "one row per key".into(), format!("duplicate key {}", key));
        }
        match lk.entries.get(&key) {
            Some(v) if *v == val => {}
            Some(v) => rviol(&coll, n as u64, "c18.entries", format!("{}: row value differs from the CLDR value", row.table), what.clone(), format!("{} -> {}", key, v), format!("{} -> {}", key, val)),
            None => rviol(&coll, n as u64, "c18.entries", format!("{}: row key is not a CLDR likelySubtags key", row.table), what.clone(), "a key of likelySubtags.json".into(), key.clone()),
        }
    }
    for (k, v) in &lk.entries {
        if !seen.contains_key(k) {
            rviol(&coll, 1 << 40, "c18.entries", "a CLDR likelySubtags key has no table row".into(), format!("key {}", k), format!("{} -> {}", k, v), "missing".into());
        }
    }
    // (ii) ordering, in exactly the tuple order of the binary_search_by_key closures
    strictly_increasing("LANG_ONLY", tb::LANG_ONLY.iter().map(|e| e.0).collect(), &coll);
    strictly_increasing("LANG_REGION", tb::LANG_REGION.iter().map(|e| (e.0, e.1)).collect(), &coll);
    strictly_increasing("LANG_SCRIPT", tb::LANG_SCRIPT.iter().map(|e| (e.0, e.1)).collect(), &coll);
    strictly_increasing("SCRIPT_REGION", tb::SCRIPT_REGION.iter().map(|e| (e.0, e.1)).collect(), &coll);
    strictly_increasing("SCRIPT_ONLY", tb::SCRIPT_ONLY.iter().map(|e| e.0).collect(), &coll);
    strictly_increasing("REGION_ONLY", tb::REGION_ONLY.iter().map(|e| e.0).collect(), &coll);
    // (iv) direction tables
    let dr = load_dirref(&ctx.repo);
    let mut dir_rows = 0u64;
    let check_scripts = |name: &'static str, arr: &[u32], d: Dir, dir_rows: &mut u64| {
        let mut got: Vec<String> = vec![];
        for (i, x) in arr.iter().enumerate() {
            *dir_rows += 1;
            match wf(Kind::Script, &x.to_le_bytes()) {
                Ok(s) => got.push(s),
                Err(e) => rviol(&coll, i as u64, "c18.direction", format!("{}: entry not a well-formed script", name), format!("{}[{}]", name, i), "a script".into(), e),
            }
        }
        let mut want: Vec<String> = dr.script_dir.iter().filter(|(_, dd)| **dd == d).map(|(s, _)| s.clone()).collect();
        want.sort();
        let mut g = got.clone();
        g.sort();
        let dup = g.windows(2).any(|w| w[0] == w[1]);
        if g != want || dup {
            rviol(&coll, 0, "c18.direction", format!("{} differs from the scripts derivable from the layout files", name), name.to_string(), format!("{:?}", want), format!("{:?}", got));
        }
    };
    check_scripts("SCRIPTS_CHARACTER_DIRECTION_LTR", &lt::SCRIPTS_CHARACTER_DIRECTION_LTR, Dir::LTR, &mut dir_rows);
    check_scripts("SCRIPTS_CHARACTER_DIRECTION_RTL", &lt::SCRIPTS_CHARACTER_DIRECTION_RTL, Dir::RTL, &mut dir_rows);
    check_scripts("SCRIPTS_CHARACTER_DIRECTION_TTB", &lt::SCRIPTS_CHARACTER_DIRECTION_TTB, Dir::TTB, &mut dir_rows);
    {
        let mut got = vec![];
        for (i, x) in lt::LANGS_CHARACTER_DIRECTION_RTL.iter().enumerate() {
            dir_rows += 1;
            match wf(Kind::Lang, &x.to_le_bytes()) {
                Ok(s) => got.push(s),
                Err(e) => rviol(&coll, i as u64, "c18.direction", "LANGS_CHARACTER_DIRECTION_RTL: entry not a well-formed language".into(), format!("LANGS_RTL[{}]", i), "a language".into(), e),
            }
        }
        let want: Vec<String> = dr.rtl_langs.iter().cloned().collect();
        let mut g = got.clone();
        g.sort();
        if g != want || g.windows(2).any(|w| w[0] == w[1]) {
            rviol(&coll, 0, "c18.direction", "LANGS_CHARACTER_DIRECTION_RTL differs from the right-to-left languages of the layout files".into(), "LANGS_RTL".into(), format!("{:?}", want), format!("{:?}", got));
        }
    }
    // (v) version
    let ver = cldr_version(&ctx.repo);
    if tb::CLDR_VERSION != ver || unic_langid_impl::likelysubtags::CLDR_VERSION != ver {
        rviol(&coll, 0, "c18.version", "CLDR_VERSION differs from the data's _cldrVersion".into(), "CLDR_VERSION".into(), ver.clone(), tb::CLDR_VERSION.to_string());
    }
    // (vi) the repository's own generators
    let gen = run_generators(ctx, &coll);
    rep.collector = coll;
    let nrows = all.len() as u64;
    rep.states = nrows + dir_rows + 1;
    rep.transitions = nrows * 2 + dir_rows + gen.0;
    rep.traces = nrows + dir_rows;
    rep.evaluations = nrows + dir_rows + 1 + gen.0;
    rep.distinct_nontrivial = seen.len() as u64;
    rep.samples = samples;
    rep.extra.insert("table_rows".into(), json!({"LANG_ONLY": tb::LANG_ONLY.len(), "LANG_REGION": tb::LANG_REGION.len(), "LANG_SCRIPT": tb::LANG_SCRIPT.len(),
        "SCRIPT_REGION": tb::SCRIPT_REGION.len(), "SCRIPT_ONLY": tb::SCRIPT_ONLY.len(), "REGION_ONLY": tb::REGION_ONLY.len(), "direction_entries": dir_rows}));
    rep.extra.insert("json_entries".into(), json!(lk.entries.len()));
    rep.extra.insert("generator_tokens_compared".into(), json!(gen.0));
    rep.extra.insert("generators".into(), json!(gen.1));
    if nrows < 8000 || lk.entries.len() < 8000 {
        rep.engine_failures.push("vacuity guard: too few table rows / JSON entries".into());
    }
    rep.rule = "E4, complete: every row of the six compiled likely-subtags tables and every entry of the four direction arrays (read from the compiled statics through the cfg hook) against a re-derivation from likelySubtags.json and the layout files: one row per key, right value, strictly increasing in the binary-search key order, every integer a canonical well-formed subtag, every value has a language; CLDR_VERSION; and the two generator binaries are re-run and their token streams compared with the checked-in files. distinct_nontrivial = distinct CLDR keys found in the tables.".into();
    rep.assumptions = vec!["the JSON files under data/ are the source of truth".into()];
    rep
}

fn tokens(s: &str) -> Vec<String> {
    // whitespace and commas are separators; brackets/parens are tokens; everything else is a word
    let mut out = vec![];
    let mut cur = String::new();
    for c in s.chars() {
        if c.is_whitespace() || c == ',' {
            if !cur.is_empty() {
                out.push(std::mem::take(&mut cur));
            }
        } else if "()[];=:".contains(c) {
            if !cur.is_empty() {
                out.push(std::mem::take(&mut cur));
            }
            out.push(c.to_string());
        } else {
            cur.push(c);
        }
    }
    if !cur.is_empty() {
        out.push(cur);
    }
    out
}

fn run_generators(ctx: &Ctx, coll: &Collector) -> (u64, Vec<String>) {
    let mut ntok = 0u64;
    let mut notes = vec![];
    let crate_dir = format!("{}/unic-langid-impl", ctx.repo);
    for (bin, file) in [("generate_likelysubtags", "src/likelysubtags/tables.rs"), ("generate_layout", "src/layout_table.rs")] {
        let out = std::process::Command::new("cargo")
            .args(["run", "--release", "--offline", "-q", "--features", "binary", "--bin", bin])
            .current_dir(&crate_dir)
            .env("CARGO_TARGET_DIR", std::env::var("VERIF_GEN_TARGET").unwrap_or_else(|_| "/verif/work/target-gen".to_string()))
            .env("CARGO_NET_OFFLINE", "true")
            .env_remove("RUSTFLAGS")
            .output();
        let out = match out {
            Ok(o) => o,
            Err(e) => {
                rviol(coll, 0, "c18.generator", format!("{} cannot be run", bin), bin.to_string(), "runs".into(), e.to_string());
                continue;
            }
        };
        if !out.status.success() {
            rviol(coll, 0, "c18.generator", format!("{} fails", bin), bin.to_string(), "exit 0".into(),
                  format!("{:?}: {}", out.status, String::from_utf8_lossy(&out.stderr).chars().take(400).collect::<String>()));
            continue;
        }
        let gen_t = tokens(&String::from_utf8_lossy(&out.stdout));
        let file_t = tokens(&std::fs::read_to_string(format!("{}/{}", crate_dir, file)).unwrap_or_default());
        ntok += gen_t.len() as u64;
        notes.push(format!("{}: {} tokens generated, {} in {}", bin, gen_t.len(), file_t.len(), file));
        if gen_t != file_t {
            let p = gen_t.iter().zip(file_t.iter()).position(|(a, b)| a != b).unwrap_or(gen_t.len().min(file_t.len()));
            rviol(coll, 0, "c18.generator", format!("{} output differs from the checked-in {}", bin, file), format!("{} token {}", file, p),
                  format!("{:?}", gen_t.get(p.saturating_sub(2)..(p + 3).min(gen_t.len()))),
                  format!("{:?}", file_t.get(p.saturating_sub(2)..(p + 3).min(file_t.len()))));
        }
    }
    (ntok, notes)
}

//! C19 — serde form is the canonical string and round-trips (built with the `serde` feature).
//! Every input of C02's spaces is encoded as a JSON string twice (minimal escaping; every UTF-16
//! unit as \uXXXX) and deserialised through serde_json::from_str and through
//! serde_json::Value; the result must be Ok(v) iff FromStr is Ok(v).

use super::inputs::{self, sweep, SweepPlan};
use crate::engine::*;
use serde_json::{json, Value};
use std::str::FromStr;
use unic_langid_impl::LanguageIdentifier;

fn viol(coll: &Collector, l: &Local, sub: &'static str, class: &str, input: &[u8], expected: String, observed: String) {
    coll.push(l.order, Violation { sub, class: class.to_string(), case: Case::Input(input.to_vec()), expected, observed });
}

fn escape_all(s: &str) -> String {
    let mut out = String::from("\"");
    let mut buf = [0u16; 2];
    for c in s.chars() {
        for u in c.encode_utf16(&mut buf) {
            out.push_str(&format!("\\u{:04x}", u));
        }
    }
    out.push('"');
    out
}

fn show(r: &Out<LanguageIdentifier>) -> String {
    r.brief(|x| format!("{:?}", x))
}

pub fn check_c19(b: &[u8], l: &mut Local, coll: &Collector) {
    let Ok(s) = std::str::from_utf8(b) else {
        // not expressible as a JSON string; a raw byte sequence must be rejected, not panic
        l.counters[3] += 1;
        let mut raw = vec![b'"'];
        raw.extend_from_slice(b);
        raw.push(b'"');
        match guard(|| serde_json::from_slice::<LanguageIdentifier>(&raw)) {
            Out::Err(_) => {}
            o => viol(coll, l, "c19.non_utf8", "a non-UTF-8 JSON document is not rejected with an error", b, "Err".into(), show(&o)),
        }
        return;
    };
    let p = guard(|| LanguageIdentifier::from_str(s));
    l.outcomes[p.kind()] += 1;
    let j1 = serde_json::to_string(s).expect("string to JSON");
    let j2 = escape_all(s);
    let d1 = guard(|| serde_json::from_str::<LanguageIdentifier>(&j1));
    let d2 = guard(|| serde_json::from_str::<LanguageIdentifier>(&j2));
    let d3 = guard(|| serde_json::from_value::<LanguageIdentifier>(Value::String(s.to_string())));
    let d4 = guard(|| serde_json::from_slice::<LanguageIdentifier>(j1.as_bytes()));
    let d5 = guard(|| serde_json::from_reader::<_, LanguageIdentifier>(j2.as_bytes()));
    for (name, d) in [("from_str(minimal escapes)", &d1), ("from_str(\\u escapes)", &d2), ("from_value(String)", &d3), ("from_slice", &d4), ("from_reader(\\u escapes)", &d5)] {
        l.counters[0] += 1;
        let same = match (&p, d) {
            (Out::Ok(a), Out::Ok(b)) => a == b && format!("{:?}", a) == format!("{:?}", b),
            (Out::Err(_), Out::Err(_)) => true,
            _ => false,
        };
        if !same {
            viol(coll, l, "c19.deserialize", &format!("{} differs from FromStr ({} vs {})", name, OUTCOME_NAMES[d.kind()], OUTCOME_NAMES[p.kind()]), b, show(&p), show(d));
        }
    }
    if let Out::Ok(v) = &p {
        l.nontrivial += 1;
        let canon = v.to_string();
        let want = format!("\"{}\"", canon);
        match guard(|| serde_json::to_string(v)) {
            Out::Ok(js) if js == want => {
                match guard(|| serde_json::from_str::<LanguageIdentifier>(&js)) {
                    Out::Ok(v2) if v2 == *v => {}
                    o => viol(coll, l, "c19.roundtrip", "deserialising the serialised form does not give back the value", b, format!("{:?}", v), show(&o)),
                }
            }
            o => viol(coll, l, "c19.serialize", "serde_json::to_string is not the quoted canonical string", b, want.clone(), o.brief(|x| x.clone())),
        }
        match guard(|| serde_json::to_value(v)) {
            Out::Ok(Value::String(x)) if x == canon => {}
            o => viol(coll, l, "c19.serialize", "serde_json::to_value is not Value::String(canonical string)", b, canon.clone(), o.brief(|x| x.to_string())),
        }
        match guard(|| serde_json::to_vec(v)) {
            Out::Ok(x) if x == want.as_bytes() => {}
            o => viol(coll, l, "c19.serialize", "serde_json::to_vec is not the quoted canonical string", b, want.clone(), o.brief(|x| String::from_utf8_lossy(x).to_string())),
        }
        if l.wants(0) {
            l.sample(0, b, || format!("{} <-> {}", j2, want));
        }
    } else if l.wants(1) {
        l.sample(1, b, || format!("{} -> {}", j1, show(&d1)));
    }
}

fn non_string_documents() -> Vec<String> {
    let mut v: Vec<String> = [
        "null", "true", "false", "0", "-1", "1", "42", "1.5", "-0.0", "1e5", "1e400", "18446744073709551616", "-9223372036854775809",
        "[]", "[\"en\"]", "[\"en\",\"US\"]", "[[\"en\"]]", "[null]", "[101,110]", "{}", "{\"language\":\"en\"}", "{\"en\":null}", "{\"id\":\"en-US\"}",
        "{\"language\":\"en\",\"script\":null,\"region\":\"US\",\"variants\":[]}", "[{\"a\":[{\"b\":[]}]}]", "", " ", "\"", "\"en", "en", "'en'", "\"en\" \"US\"", "\"en\",",
        "\"\\ud800\"", "\"\\x\"", "\"en\\", "nul", "tru", "[", "{", "{\"a\"", "{\"a\":", "[1,", "\u{feff}\"en\"",
    ]
    .iter()
    .map(|s| s.to_string())
    .collect();
    // deep nesting (serde_json's recursion limit must turn this into an error, not a stack overflow)
    v.push("[".repeat(100_000));
    v.push(format!("{}\"en\"{}", "[".repeat(200), "]".repeat(200)));
    v.push("{\"a\":".repeat(10_000));
    v
}

fn non_string_values() -> Vec<Value> {
    vec![
        Value::Null, json!(true), json!(false), json!(0), json!(-1), json!(1.5), json!(u64::MAX), json!(i64::MIN), json!([]), json!(["en"]), json!([["en"]]), json!({}),
        json!({"language": "en"}), json!({"en": null}), json!([null, "en"]), json!([101, 110]),
    ]
}

pub fn run_c19(ctx: &Ctx) -> Report {
    let mut rep = Report::new();
    let mut plan = SweepPlan::standard(ctx);
    plan.langid_only = true;
    plan.rep3 = !ctx.quick();
    let all = sweep(ctx, &plan, &mut rep, &check_c19);
    if all.outcomes[0] == 0 || all.outcomes[1] == 0 {
        rep.engine_failures.push("vacuity guard: FromStr never accepted or never rejected".into());
    }
    rep.extra.insert("deserialisations_compared_with_FromStr".into(), json!(all.counters[0]));
    rep.extra.insert("non_utf8_inputs_sent_as_raw_documents".into(), json!(all.counters[3]));
    rep.extra.remove("zones");
    // every reachable LanguageIdentifier of the E3 H-id harness: serialise / deserialise
    {
        let mut tmp = Report::new();
        let sum = super::history::run_harnesses(ctx, &["H-id"], &["c19."], &mut tmp, true);
        let coll = std::mem::take(&mut rep.collector);
        let mut l = Local::new();
        let mut n = 0u64;
        let mut seen = std::collections::BTreeSet::new();
        for st in &sum.values {
            if !seen.insert(format!("{:?}", st.imp.id)) {
                continue;
            }
            n += 1;
            l.order = n;
            let v = &st.imp.id;
            let canon = st.model.id.canon();
            let want = format!("\"{}\"", canon);
            match guard(|| serde_json::to_string(v)) {
                Out::Ok(js) if js == want => match guard(|| serde_json::from_str::<LanguageIdentifier>(&js)) {
                    Out::Ok(v2) if v2 == *v => {}
                    o => viol(&coll, &l, "c19.roundtrip", "a mutated value does not survive serialise/deserialise", canon.as_bytes(), format!("{:?}", v), show(&o)),
                },
                o => viol(&coll, &l, "c19.serialize", "serialised form of a mutated value is not its canonical string", canon.as_bytes(), want.clone(), o.brief(|x| x.clone())),
            }
        }
        rep.collector = coll;
        rep.engine_failures.extend(tmp.engine_failures);
        rep.states += sum.states;
        rep.transitions += sum.transitions;
        rep.traces += n;
        rep.evaluations += n;
        rep.extra.insert("E3_H-id_values_round_tripped".into(), json!({"unique_states": sum.states, "distinct_language_identifiers": n}));
    }
    // non-string documents and values: an error, never a panic (run in this process: a stack
    // overflow would kill the worker and be reported by the parent)
    {
        let coll = std::mem::take(&mut rep.collector);
        let l = Local::new();
        let docs = non_string_documents();
        for (i, d) in docs.iter().enumerate() {
            match guard(|| serde_json::from_str::<LanguageIdentifier>(d)) {
                Out::Err(_) => {}
                o => coll.push(i as u64, Violation { sub: "c19.non_string", class: "a non-string JSON document is not rejected with an error".into(), case: Case::Text(format!("json:{}", &d[..d.len().min(200)])), expected: "Err".into(), observed: show(&o) }),
            }
        }
        let vals = non_string_values();
        for (i, v) in vals.iter().enumerate() {
            match guard(|| serde_json::from_value::<LanguageIdentifier>(v.clone())) {
                Out::Err(_) => {}
                o => coll.push(1000 + i as u64, Violation { sub: "c19.non_string", class: "a non-string serde_json::Value is not rejected with an error".into(), case: Case::Text(format!("json:{}", v)), expected: "Err".into(), observed: show(&o) }),
            }
        }
        // serde's own data model, kind by kind (serde::de::value deserializers): every
        // non-string kind must be rejected, also when its payload spells a valid identifier
        // (bytes b"en-US", a sequence of the characters, a map keyed by the identifier ...);
        // the three string kinds must agree with FromStr
        let kinds_cell = std::cell::Cell::new(0u64);
        {
            use serde::de::value::*;
            use serde::de::IntoDeserializer;
            use serde::Deserialize;
            type E = serde::de::value::Error;
            let nonstr = |name: &str, r: Out<LanguageIdentifier>| {
                kinds_cell.set(kinds_cell.get() + 1);
                match r {
                    Out::Err(_) => {}
                    o => coll.push(2000 + kinds_cell.get(), Violation { sub: "c19.non_string", class: format!("a non-string serde value ({}) is not rejected with an error", name), case: Case::Text(format!("serde:{}", name)), expected: "Err".into(), observed: show(&o) }),
                }
            };
            nonstr("bool", guard(|| LanguageIdentifier::deserialize(BoolDeserializer::<E>::new(true))));
            nonstr("i8", guard(|| LanguageIdentifier::deserialize(I8Deserializer::<E>::new(1))));
            nonstr("i16", guard(|| LanguageIdentifier::deserialize(I16Deserializer::<E>::new(1))));
            nonstr("i32", guard(|| LanguageIdentifier::deserialize(I32Deserializer::<E>::new(1))));
            nonstr("i64", guard(|| LanguageIdentifier::deserialize(I64Deserializer::<E>::new(-1))));
            nonstr("i128", guard(|| LanguageIdentifier::deserialize(I128Deserializer::<E>::new(1))));
            nonstr("u8", guard(|| LanguageIdentifier::deserialize(U8Deserializer::<E>::new(b'e'))));
            nonstr("u16", guard(|| LanguageIdentifier::deserialize(U16Deserializer::<E>::new(1))));
            nonstr("u32", guard(|| LanguageIdentifier::deserialize(U32Deserializer::<E>::new(0x6e65))));
            nonstr("u64", guard(|| LanguageIdentifier::deserialize(U64Deserializer::<E>::new(0x6e65))));
            nonstr("u128", guard(|| LanguageIdentifier::deserialize(U128Deserializer::<E>::new(1))));
            nonstr("f32", guard(|| LanguageIdentifier::deserialize(F32Deserializer::<E>::new(1.5))));
            nonstr("f64", guard(|| LanguageIdentifier::deserialize(F64Deserializer::<E>::new(1.5))));
            nonstr("unit", guard(|| LanguageIdentifier::deserialize(UnitDeserializer::<E>::new())));
            for text in ["en-US", "en", "und", "", "en-US\0"] {
                nonstr(&format!("bytes {:?}", text), guard(|| LanguageIdentifier::deserialize(BytesDeserializer::<E>::new(text.as_bytes()))));
                nonstr(&format!("borrowed bytes {:?}", text), guard(|| LanguageIdentifier::deserialize(BorrowedBytesDeserializer::<E>::new(text.as_bytes()))));
                nonstr(&format!("seq of chars {:?}", text), guard(|| LanguageIdentifier::deserialize(SeqDeserializer::<_, E>::new(text.chars()))));
                nonstr(&format!("seq of one string {:?}", text), guard(|| LanguageIdentifier::deserialize(SeqDeserializer::<_, E>::new(std::iter::once(text)))));
                nonstr(&format!("map keyed by {:?}", text), guard(|| LanguageIdentifier::deserialize(MapDeserializer::<_, E>::new(std::iter::once((text, text))))));
                nonstr(&format!("option/some via Vec<u8> {:?}", text), guard(|| { let d: SeqDeserializer<std::vec::IntoIter<u8>, E> = text.as_bytes().to_vec().into_deserializer(); LanguageIdentifier::deserialize(d) }));
                // the string kinds agree with FromStr
                let want = guard(|| LanguageIdentifier::from_str(text));
                for (kind, got) in [
                    ("str", guard(|| LanguageIdentifier::deserialize(StrDeserializer::<E>::new(text)))),
                    ("borrowed str", guard(|| LanguageIdentifier::deserialize(BorrowedStrDeserializer::<E>::new(text)))),
                    ("String", guard(|| LanguageIdentifier::deserialize(StringDeserializer::<E>::new(text.to_string())))),
                    ("Cow str", guard(|| LanguageIdentifier::deserialize(CowStrDeserializer::<E>::new(std::borrow::Cow::Borrowed(text))))),
                ] {
                    kinds_cell.set(kinds_cell.get() + 1);
                    if got.kind() != want.kind() || got.ok() != want.ok() {
                        coll.push(3000 + kinds_cell.get(), Violation { sub: "c19.deserialize", class: format!("a serde {} value differs from FromStr", kind), case: Case::Text(format!("serde:{}:{}", kind, text)), expected: show(&want), observed: show(&got) });
                    }
                }
            }
            // a single char: visit_char forwards to visit_str by default; one character never parses
            nonstr("char", guard(|| LanguageIdentifier::deserialize(CharDeserializer::<E>::new('e'))));
        }
        let kinds = kinds_cell.get();
        rep.extra.insert("serde_data_model_kinds_checked".into(), json!(kinds));
        let _ = l;
        let n = (docs.len() + vals.len()) as u64 + kinds;
        rep.states += n;
        rep.transitions += n;
        rep.traces += n;
        rep.evaluations += n;
        rep.extra.insert("non_string_documents".into(), json!(docs.len()));
        rep.extra.insert("non_string_values".into(), json!(vals.len()));
        rep.collector = coll;
    }
    // histories on the serde entry points: (1) Deserialize::deserialize_in_place over an existing
    // value -- the result must be the value FromStr gives for the new text, whatever the place held
    // (an implementation that re-uses the old value's storage must not leak it); on Err the place
    // may hold anything valid but the call must return; (2) a serialisation that FAILS inside the
    // serializer (a writer that refuses) followed by a serialisation of another value on the same
    // thread -- the second must be exact (a scratch buffer that is only cleared on success leaks)
    {
        use serde::Deserialize;
        let coll = std::mem::take(&mut rep.collector);
        let mut menu: Vec<String> = ["en", "und", "en-US", "ca-ES-valencia", "de-1996", "sl-rozaj-biske-1994", "zh-Hant-TW", "sr-Cyrl-RS-ekavsk-fonipa", "abcdefgh-Latn-001-1abc-zzzzzzzz", "und-419"].iter().map(|s| s.to_string()).collect();
        for n in [3usize, 8, 9, 17] {
            menu.push(super::counts::text_of("variants", &(0..n).collect::<Vec<_>>()));
            menu.push(super::counts::text_of("variants", &(1..=n).collect::<Vec<_>>()));
        }
        let bad = ["", "en-", "toolongsubtag", "en-US-", "e", "en-u-ca", "123"];
        let mut n = 0u64;
        for old in &menu {
            let Ok(old_v) = LanguageIdentifier::from_str(old) else { continue };
            for new in menu.iter().map(|s| s.as_str()).chain(bad.iter().copied()) {
                n += 1;
                let doc = serde_json::to_string(new).expect("json string");
                let want = LanguageIdentifier::from_str(new);
                let r = guard_total(|| {
                    let mut place = old_v.clone();
                    let mut de = serde_json::Deserializer::from_str(&doc);
                    let res = LanguageIdentifier::deserialize_in_place(&mut de, &mut place).map_err(|e| e.to_string());
                    (res, place)
                });
                let case = Case::Text(format!("serde:in_place:{}|{}", old, new));
                match (r, &want) {
                    (Ok((Ok(()), place)), Ok(w)) if place == *w && place.to_string() == w.to_string() => {}
                    (Ok((Err(_), _)), Err(_)) => {}
                    (Ok((res, place)), _) => coll.push(n, Violation { sub: "c19.in_place", class: "Deserialize::deserialize_in_place over an existing value differs from FromStr of the new text".into(), case, expected: format!("{:?}", want.as_ref().map(|w| w.to_string())), observed: format!("{:?} leaving {:?}", res, place) }),
                    (Err(p), _) => coll.push(n, Violation { sub: "c19.in_place", class: "Deserialize::deserialize_in_place panics".into(), case, expected: "Ok or Err".into(), observed: p }),
                }
                // the same through a Vec (serde re-uses the elements of the existing vector in place)
                if let Ok(w) = &want {
                    n += 1;
                    let docv = format!("[{},{}]", doc, doc);
                    let r = guard_total(|| {
                        let mut place = vec![old_v.clone(), old_v.clone(), old_v.clone()];
                        let mut de = serde_json::Deserializer::from_str(&docv);
                        let res = Vec::<LanguageIdentifier>::deserialize_in_place(&mut de, &mut place).map_err(|e| e.to_string());
                        (res, place)
                    });
                    match r {
                        Ok((Ok(()), place)) if place == vec![w.clone(), w.clone()] => {}
                        Ok((res, place)) => coll.push(n, Violation { sub: "c19.in_place", class: "Vec::<LanguageIdentifier>::deserialize_in_place over existing elements differs from FromStr of the new texts".into(), case: Case::Text(format!("serde:in_place_vec:{}|{}", old, new)), expected: format!("[{}, {}]", w, w), observed: format!("{:?} leaving {:?}", res, place) }),
                        Err(p) => coll.push(n, Violation { sub: "c19.in_place", class: "Vec::deserialize_in_place panics".into(), case: Case::Text(format!("serde:in_place_vec:{}|{}", old, new)), expected: "Ok or Err".into(), observed: p }),
                    }
                }
            }
        }
        // (2) failing serializer, then a good one
        struct Refuse(usize);
        impl std::io::Write for Refuse {
            fn write(&mut self, b: &[u8]) -> std::io::Result<usize> {
                if self.0 == 0 {
                    return Err(std::io::Error::new(std::io::ErrorKind::Other, "refused"));
                }
                let k = b.len().min(self.0);
                self.0 -= k;
                Ok(k)
            }
            fn flush(&mut self) -> std::io::Result<()> {
                Ok(())
            }
        }
        for x in &menu {
            let Ok(xv) = LanguageIdentifier::from_str(x) else { continue };
            for y in &menu {
                let Ok(yv) = LanguageIdentifier::from_str(y) else { continue };
                for budget in [0usize, 1, 3] {
                    n += 1;
                    let r = guard_total(|| {
                        let first = serde_json::to_writer(Refuse(budget), &xv).is_err();
                        (first, serde_json::to_string(&yv).map_err(|e| e.to_string()), serde_json::to_value(&yv).map_err(|e| e.to_string()))
                    });
                    let want = format!("\"{}\"", yv);
                    match r {
                        Ok((_, Ok(s), Ok(v))) if s == want && v == Value::String(yv.to_string()) => {}
                        Ok(o) => coll.push(n, Violation { sub: "c19.serialize", class: "a serialisation right after one that failed inside the serializer is not the quoted canonical string".into(), case: Case::Text(format!("serde:after_failure:{}|{}|{}", x, y, budget)), expected: want, observed: format!("{:?}", o) }),
                        Err(p) => coll.push(n, Violation { sub: "c19.serialize", class: "serialisation panics".into(), case: Case::Text(format!("serde:after_failure:{}|{}|{}", x, y, budget)), expected: want, observed: p }),
                    }
                }
            }
        }
        rep.collector = coll;
        rep.states += n;
        rep.transitions += n;
        rep.traces += n;
        rep.evaluations += n;
        rep.extra.insert("serde_histories".into(), json!({"kind": "every ordered pair (old value, new text) of an 18-identifier menu (incl. 3 / 8 / 9 / 17 variants) plus 7 ill-formed texts through Deserialize::deserialize_in_place on a LanguageIdentifier and on a Vec of them; every ordered pair (x, y) x 3 write budgets: to_writer(x) into a writer that refuses, then to_string(y) / to_value(y)", "cases": n}));
    }
    rep.rule = "C02's input spaces (E1 token trees, every language-id skeleton, its edit neighbourhoods); every UTF-8 input is encoded as a JSON string twice (minimal escaping; every UTF-16 unit as \\uXXXX) and deserialised through from_str, from_slice, from_reader and from_value(Value::String): Ok(v) iff FromStr is Ok(v), same v; every accepted value is serialised with to_string / to_vec / to_value and must be exactly the quoted canonical string and deserialise back; non-UTF-8 inputs are sent as raw documents; a fixed complete list of non-string documents and Values must give Err, never a panic; every LanguageIdentifier reachable in the E3 H-id harness is round-tripped. Non-trivial = FromStr accepts.".into();
    rep.assumptions = vec!["serde_json 1.x as the self-describing format (two paths: text and Value)".into()];
    let _ = inputs::parse_langid;
    rep
}

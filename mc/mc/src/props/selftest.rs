//! Reference-model self test (DESIGN §3): the oracle must classify everything the repository
//! itself treats as well-formed as MUST-ACCEPT with the expected canonical form.

use refmodel::{self as rm, LangIdVerdict, Zone};
use serde_json::Value;

pub fn run(repo: &str) -> i32 {
    let mut bad = 0;
    let mut n = 0;
    // 1. CLDR layout locale names
    let dir = format!("{}/unic-langid-impl/data/cldr-misc-full/main", repo);
    for e in std::fs::read_dir(&dir).expect("layout dir") {
        let name = e.unwrap().file_name().into_string().unwrap();
        if name == "root" {
            continue;
        }
        n += 1;
        match rm::langid_oracle(name.as_bytes()) {
            LangIdVerdict::Accept(m) if m.canon().eq_ignore_ascii_case(&name) => {}
            v => {
                eprintln!("selftest: CLDR locale {} -> {:?}", name, v);
                bad += 1;
            }
        }
    }
    // 2. likely-subtags keys and values
    let txt = std::fs::read_to_string(format!("{}/unic-langid-impl/data/likelySubtags.json", repo)).unwrap();
    let v: Value = serde_json::from_str(&txt).unwrap();
    for (k, val) in v["supplemental"]["likelySubtags"].as_object().unwrap() {
        for s in [k.as_str(), val.as_str().unwrap()] {
            n += 1;
            match rm::langid_oracle(s.as_bytes()) {
                LangIdVerdict::Accept(m) if m.canon() == s => {}
                v => {
                    eprintln!("selftest: likely subtag {} -> {:?}", s, v);
                    bad += 1;
                }
            }
        }
    }
    // 3. the repository's fixtures
    let fx: Value = serde_json::from_str(
        &std::fs::read_to_string(format!("{}/unic-langid-impl/tests/fixtures/parsing.json", repo)).unwrap(),
    )
    .unwrap();
    for t in fx.as_array().unwrap() {
        let s = t["input"]["string"].as_str().unwrap();
        n += 1;
        match rm::langid_oracle(s.as_bytes()) {
            LangIdVerdict::Accept(m) => {
                let o = &t["output"];
                let ok = m.lang.as_deref() == o["language"].as_str()
                    && m.script.as_deref() == o["script"].as_str()
                    && m.region.as_deref() == o["region"].as_str()
                    && m.variants.iter().map(|x| x.as_str()).collect::<Vec<_>>()
                        == o["variants"].as_array().map(|a| a.iter().map(|x| x.as_str().unwrap()).collect::<Vec<_>>()).unwrap_or_default();
                if !ok {
                    eprintln!("selftest: fixture {} -> {:?} but fixture says {}", s, m, o);
                    bad += 1;
                }
            }
            v => {
                eprintln!("selftest: fixture {} -> {:?}", s, v);
                bad += 1;
            }
        }
    }
    let fx: Value = serde_json::from_str(
        &std::fs::read_to_string(format!("{}/unic-locale-impl/tests/fixtures/parsing.json", repo)).unwrap(),
    )
    .unwrap();
    for t in fx.as_array().unwrap() {
        let s = t["input"]["string"].as_str().unwrap();
        n += 1;
        match rm::locale_zone(s.as_bytes()).0 {
            Zone::MustAccept(m) => {
                let o = &t["output"];
                let mut ok = m.id.lang.as_deref() == o["language"].as_str() && m.id.region.as_deref() == o["region"].as_str();
                if let Some(u) = o["extensions"]["u"].as_object() {
                    for (k, val) in u {
                        ok &= m.keywords.get(k).map(|v| v.join("-")) == val.as_str().map(|x| x.to_string());
                    }
                }
                if let Some(tl) = o["extensions"]["t"]["tlang"].as_str() {
                    ok &= m.tlang.as_ref().map(|x| x.canon()).as_deref() == Some(tl);
                }
                if let Some(x) = o["extensions"]["x"].as_object() {
                    let mut tags: Vec<&str> = x.keys().map(|k| k.as_str()).collect();
                    tags.sort();
                    ok &= tags == m.tags.iter().map(|x| x.as_str()).collect::<Vec<_>>();
                }
                if !ok {
                    eprintln!("selftest: locale fixture {} -> {:?} but fixture says {}", s, m, o);
                    bad += 1;
                }
            }
            z => {
                eprintln!("selftest: locale fixture {} -> zone {}", s, z.name());
                bad += 1;
            }
        }
    }
    let fx: Value = serde_json::from_str(
        &std::fs::read_to_string(format!("{}/unic-locale-impl/tests/fixtures/serialize.json", repo)).unwrap(),
    )
    .unwrap();
    for t in fx.as_array().unwrap() {
        let s = t["output"].as_str().unwrap();
        n += 1;
        if let Err(e) = rm::check_canonical_locale_string(s) {
            eprintln!("selftest: serialize fixture {} -> {}", s, e);
            bad += 1;
        }
    }
    println!("selftest: {} strings, {} disagreements", n, bad);
    if bad == 0 {
        0
    } else {
        3
    }
}

//! C15 — each subtag type accepts exactly its UTS #35 production and normalises case.
//! Also the integer round trips of C17 on the same byte-string spaces.

use crate::engine::*;
use crate::spaces::*;
use refmodel as rm;
use serde_json::json;
use std::convert::TryFrom;
use std::str::FromStr;
use unic_langid_impl::subtags::{Language, Region, Script, Variant};

fn viol(coll: &Collector, l: &Local, sub: &'static str, class: String, input: &[u8], expected: String, observed: String) {
    coll.push(l.order, Violation { sub, class, case: Case::Input(input.to_vec()), expected, observed });
}

fn other_case(s: &str) -> String {
    // a string that differs from `s` only in the case of its first letter (if it has one)
    let mut out = String::new();
    let mut done = false;
    for c in s.chars() {
        if !done && c.is_ascii_alphabetic() {
            out.push(if c.is_ascii_lowercase() { c.to_ascii_uppercase() } else { c.to_ascii_lowercase() });
            done = true;
        } else {
            out.push(c);
        }
    }
    out
}

macro_rules! check_type {
    ($ty:ident, $name:expr, $pred:expr, $norm:expr, $b:expr, $l:expr, $coll:expr, $slot:expr, $intofn:expr) => {{
        let b: &[u8] = $b;
        let want = $pred(b);
        let out = guard(|| $ty::from_bytes(b));
        $l.counters[$slot + out.kind()] += 1;
        match (&out, want) {
            (Out::Ok(v), true) => {
                let norm: String = $norm(b);
                let a = guard_total(|| v.as_str().to_string());
                let d = guard_total(|| v.to_string());
                if a.as_deref() != Ok(norm.as_str()) || d.as_deref() != Ok(norm.as_str()) {
                    viol($coll, $l, "c15.text", format!("{}: stored text is not the case-normalised input", $name), b,
                         norm.clone(), format!("as_str={:?} to_string={:?}", a, d));
                }
                if !(*v == norm.as_str()) {
                    viol($coll, $l, "c15.eq_str", format!("{}: == &str false for its canonical text", $name), b, "true".into(), "false".into());
                }
                let oc = other_case(&norm);
                if oc != norm && *v == oc.as_str() {
                    viol($coll, $l, "c15.eq_str", format!("{}: == &str true for a differently-cased text", $name), b, "false".into(), format!("true for {:?}", oc));
                }
                for p in crate::spaces::eq_probes(&norm) {
                    match guard_total(|| *v == p.as_str()) {
                        Ok(false) => {}
                        Ok(true) => viol($coll, $l, "c15.eq_str", format!("{}: == &str true for a text that is not its own", $name), b, "false".into(), format!("true for {:?}", p)),
                        Err(e) => viol($coll, $l, "c15.eq_str", format!("{}: == &str panics", $name), b, "false".into(), format!("PANIC({}) for {:?}", e, p)),
                    }
                }
                let into: Option<String> = $intofn(v);
                if let Some(s) = into {
                    if s != norm {
                        viol($coll, $l, "c15.text", format!("{}: Into<&str> differs", $name), b, norm.clone(), s);
                    }
                }
            }
            (Out::Err(_), false) => {}
            (Out::Ok(v), false) => viol($coll, $l, "c15.accept", format!("{}: accepts a string outside its production (len {})", $name, b.len().min(10)), b,
                                         "Err".into(), format!("Ok({})", v)),
            (Out::Err(e), true) => viol($coll, $l, "c15.reject", format!("{}: rejects a string of its production (len {})", $name, b.len()), b,
                                          "Ok".into(), format!("Err({})", e)),
            (Out::Panic(p), _) => viol($coll, $l, "c15.panic", format!("{}: panic {}", $name, p), b, "Ok or Err".into(), format!("PANIC({})", p)),
        }
        if let Ok(s) = std::str::from_utf8(b) {
            let o2 = guard(|| $ty::from_str(s));
            if o2 != out {
                viol($coll, $l, "c15.fromstr", format!("{}: FromStr differs from from_bytes", $name), b,
                     out.brief(|x| x.to_string()), o2.brief(|x| x.to_string()));
            }
        }
        out
    }};
}

pub fn check_c15(b: &[u8], l: &mut Local, coll: &Collector) {
    let lang = check_type!(Language, "Language", rm::is_lang, |b: &[u8]| rm::lower(b), b, l, coll, 0, |_v: &Language| None::<String>);
    check_type!(Script, "Script", rm::is_script, |b: &[u8]| rm::title(b), b, l, coll, 3,
                |v: &Script| Some(<&str>::from(v).to_string()));
    check_type!(Region, "Region", rm::is_region, |b: &[u8]| rm::upper(b), b, l, coll, 6,
                |v: &Region| Some(<&str>::from(v).to_string()));
    check_type!(Variant, "Variant", rm::is_variant, |b: &[u8]| rm::lower(b), b, l, coll, 9, |_v: &Variant| None::<String>);
    // Variant is the one subtag type that also implements comparison with the unsized `str`
    if let Out::Ok(v) = guard(|| Variant::from_bytes(b)) {
        let norm = rm::lower(b);
        if !(v == *norm.as_str()) {
            viol(coll, l, "c15.eq_str", "Variant: == str false for its canonical text".into(), b, "true".into(), "false".into());
        }
        for p in crate::spaces::eq_probes(&norm) {
            match guard_total(|| v == *p.as_str()) {
                Ok(false) => {}
                Ok(true) => viol(coll, l, "c15.eq_str", "Variant: == str true for a text that is not its own".into(), b, "false".into(), format!("true for {:?}", p)),
                Err(e) => viol(coll, l, "c15.eq_str", "Variant: == str panics".into(), b, "false".into(), format!("PANIC({}) for {:?}", e, p)),
            }
        }
    }
    let any_valid = rm::is_lang(b) || rm::is_script(b) || rm::is_region(b) || rm::is_variant(b);
    if any_valid {
        l.nontrivial += 1;
    }
    let slot = (rm::is_lang(b) as u32) | (rm::is_script(b) as u32) << 1 | (rm::is_region(b) as u32) << 2 | (rm::is_variant(b) as u32) << 3
        | (b.len().min(9) as u32) << 4;
    l.sample(slot, b, || format!("valid as: lang={} script={} region={} variant={}", rm::is_lang(b), rm::is_script(b), rm::is_region(b), rm::is_variant(b)));
    // the language-specific clauses
    let tf = guard(|| Language::try_from(Some(b)));
    if tf != lang {
        viol(coll, l, "c15.tryfrom", "Language::try_from(Some(_)) differs from from_bytes".into(), b,
             lang.brief(|x| x.to_string()), tf.brief(|x| x.to_string()));
    }
    if let Out::Ok(v) = &lang {
        let is_und = rm::lower(b) == "und";
        if v.is_empty() != is_und || (*v == Language::default()) != is_und || (v.as_str() == "und") != is_und {
            viol(coll, l, "c15.und", "'und' <=> empty language <=> default() broken".into(), b,
                 format!("is_empty == {}", is_und),
                 format!("is_empty={} ==default={} as_str={}", v.is_empty(), *v == Language::default(), v.as_str()));
        }
        let mut c = *v;
        c.clear();
        if !c.is_empty() || c != Language::default() || c.as_str() != "und" || c.to_string() != "und" {
            viol(coll, l, "c15.und", "clear() does not give the empty language".into(), b, "und".into(), c.to_string());
        }
    }
}

/// C17: integer form and back through the unchecked constructor; returns the integers so
/// that the caller can test injectivity.
pub fn check_raw_roundtrip(b: &[u8], l: &mut Local, coll: &Collector) {
    if let Out::Ok(v) = guard(|| Language::from_bytes(b)) {
        l.counters[12] += 1;
        let raw: Option<u64> = v.into();
        let raw2: Option<u64> = (&v).into();
        if raw != raw2 {
            viol(coll, l, "c17.raw", "Language: From<Language> and From<&Language> differ".into(), b, format!("{:?}", raw), format!("{:?}", raw2));
        }
        match raw {
            Some(r) => {
                let back = unsafe { Language::from_raw_unchecked(r) };
                if back != v || back.as_str() != v.as_str() || back.to_string() != rm::lower(b) {
                    viol(coll, l, "c17.raw", "Language: raw round trip changes the subtag".into(), b, v.to_string(), back.to_string());
                }
                if r.to_le_bytes().iter().take_while(|x| **x != 0).copied().collect::<Vec<u8>>() != rm::lower(b).as_bytes() {
                    viol(coll, l, "c17.raw", "Language: integer is not the little-endian packing of the text".into(), b, rm::lower(b), format!("{:#x}", r));
                }
            }
            None => {
                if rm::lower(b) != "und" {
                    viol(coll, l, "c17.raw", "Language: no integer form for a non-und language".into(), b, "Some(_)".into(), "None".into());
                }
            }
        }
    }
    if let Out::Ok(v) = guard(|| Script::from_bytes(b)) {
        l.counters[13] += 1;
        let r: u32 = v.into();
        let back = unsafe { Script::from_raw_unchecked(r) };
        if back != v || back.as_str() != v.as_str() || back.to_string() != rm::title(b) || r.to_le_bytes() != rm::title(b).as_bytes() {
            viol(coll, l, "c17.raw", "Script: raw round trip changes the subtag".into(), b, v.to_string(), format!("{} ({:#x})", back, r));
        }
    }
    if let Out::Ok(v) = guard(|| Region::from_bytes(b)) {
        l.counters[14] += 1;
        let r: u32 = v.into();
        let back = unsafe { Region::from_raw_unchecked(r) };
        let want = rm::upper(b);
        let packed: Vec<u8> = r.to_le_bytes().iter().take_while(|x| **x != 0).copied().collect();
        if back != v || back.as_str() != v.as_str() || back.to_string() != want || packed != want.as_bytes() {
            viol(coll, l, "c17.raw", "Region: raw round trip changes the subtag".into(), b, v.to_string(), format!("{} ({:#x})", back, r));
        }
    }
    if let Out::Ok(v) = guard(|| Variant::from_bytes(b)) {
        l.counters[15] += 1;
        let r: u64 = v.into();
        let r2: u64 = (&v).into();
        let back = unsafe { Variant::from_raw_unchecked(r) };
        let want = rm::lower(b);
        let packed: Vec<u8> = r.to_le_bytes().iter().take_while(|x| **x != 0).copied().collect();
        if r != r2 || back != v || back.as_str() != v.as_str() || back.to_string() != want || packed != want.as_bytes() {
            viol(coll, l, "c17.raw", "Variant: raw round trip changes the subtag".into(), b, v.to_string(), format!("{} ({:#x})", back, r));
        }
    }
}

/// valid exemplars of every length and case pattern, for the substitution sweeps
pub fn valid_subtags() -> Vec<Vec<u8>> {
    let mut v: Vec<&[u8]> = vec![
        b"en", b"EN", b"eN", b"und", b"UND", b"Und", b"abc", b"abcde", b"ABCDE", b"abcdef", b"abcdefg", b"abcdefgh", b"ABCDEFGH",
        b"Latn", b"latn", b"LATN", b"lATN", b"us", b"US", b"uS", b"001", b"419", b"999",
        b"1996", b"1abc", b"1ABC", b"9a9z", b"valencia", b"VALENCIA", b"a1b2c", b"12345", b"1234567", b"12345678", b"abc1de", b"fonipa",
    ];
    v.dedup();
    v.into_iter().map(|x| x.to_vec()).collect()
}

pub struct SubstSpace {
    pub bases: Vec<Vec<u8>>,
    pub double: bool,
}
impl Space for SubstSpace {
    fn name(&self) -> String {
        if self.double { "E4.subst2".into() } else { "E4.subst1".into() }
    }
    fn outer_len(&self) -> u64 {
        self.bases.iter().map(|b| b.len() as u64 * 256).sum()
    }
    fn visit(&self, mut outer: u64, buf: &mut Vec<u8>, f: &mut dyn FnMut(&[u8])) {
        for base in &self.bases {
            let n = base.len() as u64 * 256;
            if outer < n {
                buf.clear();
                buf.extend_from_slice(base);
                let pos = (outer / 256) as usize;
                buf[pos] = (outer % 256) as u8;
                if !self.double {
                    f(buf);
                } else {
                    for p2 in 0..base.len() {
                        if p2 == pos {
                            continue;
                        }
                        let keep = buf[p2];
                        for v in 0..=255u8 {
                            buf[p2] = v;
                            f(buf);
                        }
                        buf[p2] = keep;
                    }
                }
                return;
            }
            outer -= n;
        }
    }
    fn describe(&self) -> serde_json::Value {
        json!({"kind": if self.double {"every double byte substitution (256 x 256 values, every pair of positions) of every valid exemplar subtag"}
                       else {"every single byte substitution (256 values x every position) of every valid exemplar subtag"},
               "exemplars": self.bases.iter().map(|b| String::from_utf8_lossy(b).to_string()).collect::<Vec<_>>()})
    }
}

pub fn subtag_spaces(ctx: &Ctx) -> Vec<Box<dyn Space>> {
    let mut spaces: Vec<Box<dyn Space>> = vec![];
    spaces.push(Box::new(ByteStrings::new("E4.bytes<=3", ByteStrings::all_bytes(), 0, 3)));
    spaces.push(Box::new(ByteStrings::new("E4.boundary4-6", BOUNDARY_BYTES.to_vec(), 4, if ctx.quick() { 5 } else { 6 })));
    spaces.push(Box::new(ByteStrings::new("E4.boundary7-9", vec![b'a', b'Z', b'0', b'9', b'-', 0, 0x80, b'@'], 6, 9)));
    spaces.push(Box::new(SubstSpace { bases: valid_subtags(), double: false }));
    spaces.push(Box::new(ListSpace { label: "E4.special_words".into(), items: special_word_strings(), what: "every case mask of the special-cased words (und, true; root as control) with every prefix/suffix of total length <= 3 over {a,d,e,n,r,u,z,0,9}".into() }));
    if !ctx.quick() {
        spaces.push(Box::new(ByteStrings::new("E4.bytes=4", ByteStrings::all_bytes(), 4, 4)));
        spaces.push(Box::new(SubstSpace { bases: valid_subtags(), double: true }));
    }
    spaces
}

pub fn run_c15(ctx: &Ctx) -> Report {
    let mut rep = Report::new();
    let coll = std::mem::take(&mut rep.collector);
    let mut all = Local::new();
    let mut distinct = 0u64;
    for sp in subtag_spaces(ctx) {
        let st = run_space(ctx, sp.as_ref(), 1 << 12, &|b, l| check_c15(b, l, &coll));
        rep.add_space(&sp.name(), sp.describe(), &st);
        if sp.name() == "E4.bytes<=3" || sp.name() == "E4.boundary4-6" {
            distinct += st.local.nontrivial;
        }
        all.merge(&st.local);
    }
    // the constant clauses
    {
        let l = Local::new();
        let d = Language::default();
        let n: Result<Language, _> = Language::try_from(None::<&[u8]>);
        if !d.is_empty() || d.as_str() != "und" || d.to_string() != "und" || n.as_ref().ok() != Some(&d) || !(d == "und") {
            viol(&coll, &l, "c15.und", "default()/try_from(None) is not the empty language 'und'".into(), b"", "und".into(), format!("{:?} / {:?}", d, n));
        }
    }
    rep.collector = coll;
    rep.distinct_nontrivial = distinct;
    rep.samples = all.samples_json(16);
    let names = ["Language", "Script", "Region", "Variant"];
    let mut per = serde_json::Map::new();
    for (i, n) in names.iter().enumerate() {
        per.insert(n.to_string(), json!({"ok": all.counters[3*i], "err": all.counters[3*i+1], "panic": all.counters[3*i+2]}));
        if all.counters[3 * i] == 0 || all.counters[3 * i + 1] == 0 {
            rep.engine_failures.push(format!("vacuity guard: {} never accepted or never rejected", n));
        }
    }
    rep.extra.insert("constructor_outcomes".into(), serde_json::Value::Object(per));
    rep.extra.remove("zones");
    rep.rule = "E4: every byte string of length 0..3 (and, thorough, every one of the 2^32 strings of length 4), every string over the boundary byte alphabet at lengths 4..6 and over an 8-byte sub-alphabet at lengths 6..9, every single (thorough: double) byte substitution of valid exemplar subtags; each string goes to the four constructors (from_bytes, FromStr, Language::try_from) and is compared with the four UTS #35 predicates; on accept as_str/Display/==&str/Into<&str> are compared with the case-normalised text. distinct_nontrivial counts the strings that are valid for at least one subtag type in the two spaces 'bytes<=3' and 'boundary4-6' only (disjoint by length, so pairwise distinct); the other spaces overlap with them and are not counted.".into();
    rep.assumptions = vec!["the four predicates of DESIGN §3.1".into()];
    rep
}

//! E6 — exhaustive schedule exploration of the library's query functions (DESIGN §0.7).
//!
//! The properties quantify over inputs; implicitly they also quantify over what other threads
//! of the same process are doing.  The current library keeps no shared mutable state, so this is
//! trivially true -- but a change can introduce some (a memo of the last lookup in a few
//! atomics, a cache behind a lock, a thread-local scratch buffer), and then a result depends on
//! the interleaving.  The input sweeps cannot decide that: they see it only by luck of the OS
//! scheduler and cannot replay it.
//!
//! This engine builds a COPY of the two `-impl` crates from the working tree in which every
//! `std::sync::*`, `std::thread::*` and `thread_local!` token is rewritten to its `shuttle`
//! counterpart, links the schedule-exploration harness (`mc/conc/main.rs`) against the copy and
//! lets shuttle's DFS scheduler enumerate EVERY schedule of small bodies (warm-up; 2 or 3
//! threads each calling one operation; join; the same operations again) for all pairs (and all
//! triples of the first five) of a family's operations.  Every atomic access, lock operation and
//! thread-local access of the rewritten library is a scheduling point.  Results are compared
//! with the sequential results of the same build, and those with the REAL (unrewritten) library
//! in this process (the copy is bound to the code).
//!
//! Shared state that the rewriting cannot intercept (`static mut`, `UnsafeCell`, `OnceLock`,
//! `LazyLock`, external lazy-static crates, nested `use std::{sync::..}` imports) is searched for
//! textually; if any is present the engine refuses to give a verdict (engine failure).

use crate::engine::*;
use serde_json::{json, Value};
use std::path::Path;
use std::sync::OnceLock;
use unic_langid_impl::{likelysubtags, LanguageIdentifier};
use unic_locale_impl::Locale;

const HARNESS_SRC: &str = include_str!("../../../conc/main.rs");

pub struct Built {
    pub bin: String,
    pub dir: String,
    pub rewritten: u64,
    pub files: u64,
}

fn work_dir() -> String {
    format!("{}/work/conc", crate::verif_dir())
}

fn section(toml: &str, name: &str) -> String {
    let mut out = String::new();
    let mut on = false;
    for line in toml.lines() {
        let t = line.trim();
        if t.starts_with('[') {
            on = t == format!("[{}]", name);
            continue;
        }
        if on {
            out.push_str(line);
            out.push('\n');
        }
    }
    out
}

/// (rewritten text, number of rewritten tokens, unmodelled constructs found)
pub fn rewrite(src: &str) -> (String, u64, Vec<String>) {
    let mut n = 0u64;
    let mut s = src.to_string();
    for (from, to) in [
        ("core::sync::atomic", "shuttle::sync::atomic"),
        ("std::sync::atomic", "shuttle::sync::atomic"),
        ("std::sync::", "shuttle::sync::"),
        ("std::thread::", "shuttle::thread::"),
        ("std::thread_local!", "shuttle::thread_local!"),
    ] {
        n += s.matches(from).count() as u64;
        s = s.replace(from, to);
    }
    // a bare `thread_local!` (macro from the prelude)
    let mut out = String::with_capacity(s.len());
    let mut rest = s.as_str();
    while let Some(p) = rest.find("thread_local!") {
        let before = &rest[..p];
        out.push_str(before);
        if before.ends_with("::") {
            out.push_str("thread_local!");
        } else {
            out.push_str("shuttle::thread_local!");
            n += 1;
        }
        rest = &rest[p + "thread_local!".len()..];
    }
    out.push_str(rest);
    let mut bad = vec![];
    for pat in ["static mut", "UnsafeCell", "OnceLock", "LazyLock", "lazy_static", "once_cell", "OnceCell", "std::{", "core::{", "extern \"C\"", "SyncUnsafeCell", "AtomicCell"] {
        // `std::{` only matters when it smuggles in sync / thread / cell items
        if pat == "std::{" || pat == "core::{" {
            for (i, _) in out.match_indices(pat) {
                let tail: String = out[i..].chars().take_while(|c| *c != ';').collect();
                if tail.contains("sync") || tail.contains("thread") || tail.contains("cell") {
                    bad.push(format!("nested import `{}`", tail.replace('\n', " ")));
                }
            }
        } else if out.contains(pat) {
            bad.push(pat.to_string());
        }
    }
    (out, n, bad)
}

fn copy_rewritten(from: &Path, to: &Path, stats: &mut (u64, u64, Vec<String>)) -> Result<(), String> {
    std::fs::create_dir_all(to).map_err(|e| e.to_string())?;
    for e in std::fs::read_dir(from).map_err(|e| format!("{}: {}", from.display(), e))? {
        let e = e.map_err(|e| e.to_string())?;
        let p = e.path();
        let name = e.file_name();
        if p.is_dir() {
            if name == "bin" {
                continue; // the table generators are not part of the library
            }
            copy_rewritten(&p, &to.join(&name), stats)?;
        } else if p.extension().map(|x| x == "rs").unwrap_or(false) {
            let src = std::fs::read_to_string(&p).map_err(|e| e.to_string())?;
            let (out, n, bad) = rewrite(&src);
            stats.0 += n;
            stats.1 += 1;
            for b in bad {
                stats.2.push(format!("{}: {}", p.display(), b));
            }
            let dst = to.join(&name);
            if std::fs::read_to_string(&dst).ok().as_deref() != Some(out.as_str()) {
                std::fs::write(&dst, out).map_err(|e| e.to_string())?;
            }
        }
    }
    Ok(())
}

pub fn prepare(ctx: &Ctx) -> &'static Result<Built, String> {
    static B: OnceLock<Result<Built, String>> = OnceLock::new();
    B.get_or_init(|| build(ctx))
}

fn build(ctx: &Ctx) -> Result<Built, String> {
    let dir = work_dir();
    let mut stats = (0u64, 0u64, vec![]);
    for c in ["unic-langid-impl", "unic-locale-impl"] {
        let cdir = format!("{}/{}", dir, c);
        let _ = std::fs::remove_dir_all(format!("{}/src", cdir));
        copy_rewritten(Path::new(&format!("{}/{}/src", ctx.repo, c)), Path::new(&format!("{}/src", cdir)), &mut stats)?;
        let toml = std::fs::read_to_string(format!("{}/{}/Cargo.toml", ctx.repo, c)).map_err(|e| e.to_string())?;
        let deps: String = section(&toml, "dependencies")
            .lines()
            .map(|l| {
                if l.trim_start().starts_with("unic-langid-impl") {
                    "unic-langid-impl = { path = \"../unic-langid-impl\" }".to_string()
                } else {
                    l.to_string()
                }
            })
            .collect::<Vec<_>>()
            .join("\n");
        let m = format!(
            "[package]\nname = \"{}\"\nversion = \"0.9.5\"\nedition = \"2021\"\n\n[dependencies]\n{}\nshuttle = \"0.9.3\"\n\n[features]\n{}\n[lints.rust]\nunexpected_cfgs = {{ level = \"allow\", check-cfg = ['cfg(unic_locale_verif)'] }}\n",
            c, deps, section(&toml, "features")
        );
        let mp = format!("{}/Cargo.toml", cdir);
        if std::fs::read_to_string(&mp).ok().as_deref() != Some(m.as_str()) {
            std::fs::write(&mp, m).map_err(|e| e.to_string())?;
        }
    }
    if !stats.2.is_empty() {
        return Err(format!("shared state of a kind the schedule explorer cannot intercept: {}", stats.2.join("; ")));
    }
    let hdir = format!("{}/harness", dir);
    std::fs::create_dir_all(format!("{}/src", hdir)).map_err(|e| e.to_string())?;
    let hm = "[package]\nname = \"conc-harness\"\nversion = \"0.0.0\"\nedition = \"2021\"\n\n[workspace]\n\n[dependencies]\nshuttle = \"0.9.3\"\nunic-langid-impl = { path = \"../unic-langid-impl\", features = [\"likelysubtags\"] }\nunic-locale-impl = { path = \"../unic-locale-impl\", features = [\"likelysubtags\"] }\n";
    for (p, txt) in [(format!("{}/Cargo.toml", hdir), hm), (format!("{}/src/main.rs", hdir), HARNESS_SRC)] {
        if std::fs::read_to_string(&p).ok().as_deref() != Some(txt) {
            std::fs::write(&p, txt).map_err(|e| e.to_string())?;
        }
    }
    if !Path::new(&format!("{}/Cargo.lock", hdir)).exists() {
        let mc_src = std::env::var("VERIF_MC_SRC").unwrap_or_else(|_| "/verif/mc".to_string());
        std::fs::copy(format!("{}/locks/conc.lock", mc_src), format!("{}/Cargo.lock", hdir)).map_err(|e| format!("conc.lock: {}", e))?;
    }
    let target = std::env::var("VERIF_CONC_TARGET").unwrap_or_else(|_| format!("{}/work/target-conc", crate::verif_dir()));
    let out = std::process::Command::new("cargo")
        .args(["build", "--release", "--offline", "-q"])
        .current_dir(&hdir)
        .env("CARGO_TARGET_DIR", &target)
        .env("CARGO_NET_OFFLINE", "true")
        .env("CARGO_TERM_COLOR", "never")
        .env_remove("RUSTFLAGS")
        .output()
        .map_err(|e| format!("cannot run cargo: {}", e))?;
    if !out.status.success() {
        let err = String::from_utf8_lossy(&out.stderr);
        let first: Vec<&str> = err.lines().filter(|l| l.starts_with("error")).take(5).collect();
        return Err(format!("the rewritten copy of the library does not build against shuttle: {}", first.join(" | ")));
    }
    Ok(Built { bin: format!("{}/release/conc-harness", target), dir, rewritten: stats.0, files: stats.1 })
}

// ------------------------------------------------------------------------------------------
// the same operations on the real (unrewritten) library: binds the copy to the code
// ------------------------------------------------------------------------------------------

fn show(t: Option<super::universe::LTriple>) -> String {
    match t {
        None => "None".into(),
        Some((l, s, r)) => LanguageIdentifier::from_parts(l, s, r, &[]).to_string(),
    }
}

pub fn real_result(op: &str) -> Option<String> {
    let parts: Vec<&str> = op.splitn(3, ':').collect();
    Some(match (parts.first().copied()?, parts.get(1).copied()?, parts.get(2).copied()) {
        ("maximize", "method", Some(k)) => {
            let mut li: LanguageIdentifier = k.parse().ok()?;
            let c = li.maximize();
            format!("{} {}", c, li)
        }
        ("maximize", "free", Some(k)) => {
            let li: LanguageIdentifier = k.parse().ok()?;
            show(likelysubtags::maximize(li.language, li.script, li.region))
        }
        ("minimize", "method", Some(k)) => {
            let mut li: LanguageIdentifier = k.parse().ok()?;
            let c = li.minimize();
            format!("{} {}", c, li)
        }
        ("minimize", "free", Some(k)) => {
            let li: LanguageIdentifier = k.parse().ok()?;
            show(likelysubtags::minimize(li.language, li.script, li.region))
        }
        ("direction", k, None) => {
            let li: LanguageIdentifier = k.parse().ok()?;
            format!("{:?}", li.character_direction())
        }
        ("parse", "locale", Some(k)) => match Locale::from_bytes(k.as_bytes()) {
            Ok(l) => format!("Ok({})", l),
            Err(e) => format!("Err({:?})", e),
        },
        ("parse", "langid", Some(k)) => match unic_langid_impl::canonicalize(k) {
            Ok(l) => format!("Ok({})", l),
            Err(e) => format!("Err({:?})", e),
        },
        ("mutate", "variants", None) => {
            let mut l: Locale = "en-US-u-ca-buddhist".parse().unwrap();
            l.id.set_variants(&["valencia".parse().unwrap(), "1996".parse().unwrap(), "valencia".parse().unwrap()]);
            let a = l.to_string();
            l.id.clear_variants();
            format!("{} {}", a, l)
        }
        ("mutate", "variants2", None) => {
            let mut l: LanguageIdentifier = "de".parse().unwrap();
            l.set_variants(&["fonipa".parse().unwrap(), "1901".parse().unwrap()]);
            format!("{} {}", l, l.has_variant("1901".parse().unwrap()))
        }
        ("mutate", "attributes", None) => {
            let mut l: Locale = "en".parse().unwrap();
            let u = &mut l.extensions.unicode;
            let r = (u.set_attribute("zzz").is_ok(), u.set_attribute("ABC").is_ok(), u.set_attribute("mmm").is_ok(), u.remove_attribute("abc").ok(), u.set_attribute("a-b").is_ok());
            format!("{:?} {}", r, l)
        }
        ("mutate", "keywords", None) => {
            let mut l: Locale = "en-u-nu-thai".parse().unwrap();
            let u = &mut l.extensions.unicode;
            let r = (u.set_keyword("CA", &["buddhist", "true"]).is_ok(), u.set_keyword("hc", &[]).is_ok(), u.remove_keyword("nu").ok(), u.set_keyword("c", &["x"]).is_ok());
            format!("{:?} {}", r, l)
        }
        ("mutate", "transform", None) => {
            let mut l: Locale = "en-t-h0-hybrid".parse().unwrap();
            let t = &mut l.extensions.transform;
            let r = (t.set_tlang("DE_latn-fonipa".parse().unwrap()).is_ok(), t.set_tfield("K1", &["foo", "TRUE"]).is_ok(), t.remove_tfield("h0").ok(), t.set_tfield("1k", &["x"]).is_ok());
            format!("{:?} {}", r, l)
        }
        ("mutate", "private", None) => {
            let mut l: Locale = "en-x-zz".parse().unwrap();
            let p = &mut l.extensions.private;
            let r = (p.add_tag("B").is_ok(), p.add_tag("a").is_ok(), p.add_tag("a").is_ok(), p.remove_tag("zz").ok(), p.add_tag("").is_ok());
            format!("{:?} {}", r, l)
        }
        ("mutate", "from_parts", None) => {
            let l = Locale::from_parts("sr".parse().unwrap(), Some("Cyrl".parse().unwrap()), None, &["ekavsk".parse().unwrap(), "1996".parse().unwrap(), "ekavsk".parse().unwrap()], Some("u-nu-latn-x-a".parse().unwrap()));
            let s = l.to_string();
            let (a, b, c, d, e) = l.into_parts();
            format!("{} {} {:?} {:?} {} {}", s, a, b.map(|x| x.to_string()), c.map(|x| x.to_string()), d.len(), e)
        }
        ("mutate", "fields", None) => {
            let mut l: Locale = "und".parse().unwrap();
            l.id.language = "ZH".parse().unwrap();
            l.id.script = Some("hant".parse().unwrap());
            l.id.region = Some("tw".parse().unwrap());
            let a = l.to_string();
            l.id.language.clear();
            l.id.script = None;
            format!("{} {} {}", a, l, l.matches(&"und-TW".parse::<Locale>().unwrap(), false, false))
        }
        ("shared", what, None) => {
            use std::sync::Arc;
            let a: Arc<Locale> = Arc::new("en-Latn-US-valencia-u-abc-ca-buddhist-t-de-h0-hybrid-x-a".parse().unwrap());
            let b: Arc<Locale> = Arc::new("EN_latn_us_VALENCIA_t_de_h0_hybrid_u_abc_ca_buddhist_x_a".parse().unwrap());
            let c: Arc<Locale> = Arc::new("ar-EG-u-nu-arab".parse().unwrap());
            let (x, y, z) = (a.clone(), b.clone(), c.clone());
            match what {
                "to_string" => format!("{} {}", x, x.id),
                "getters" => format!("{:?} {:?} {:?} {:?} {:?} {:?} {}", x.extensions.unicode.attributes().collect::<Vec<_>>(), x.extensions.unicode.keyword("ca").map(|i| i.collect::<Vec<_>>()).ok(),
                    x.extensions.transform.tlang().map(|t| t.to_string()), x.extensions.transform.tfield("h0").map(|i| i.collect::<Vec<_>>()).ok(),
                    x.extensions.private.tags().collect::<Vec<_>>(), x.id.variants().map(|v| v.as_str()).collect::<Vec<_>>(), x.extensions.is_empty()),
                "compare" => {
                    use std::hash::{Hash, Hasher};
                    let h = |l: &Locale| { let mut s = std::collections::hash_map::DefaultHasher::new(); l.hash(&mut s); s.finish() };
                    format!("{} {} {:?} {:?} {} {}", *x == *y, *x == *z, x.cmp(&y), x.cmp(&z), h(&x) == h(&y), x.id == "en-Latn-US-valencia")
                }
                "matches" => format!("{} {} {} {}", x.matches(&*y, false, false), x.id.matches(&y.id, true, true), z.matches(&*z, false, false), z.id.matches(&*x, true, false)),
                "direction" => format!("{:?} {:?}", x.id.character_direction(), z.id.character_direction()),
                "clone_mutate" => {
                    let mut m: Locale = (*x).clone();
                    m.id.clear_variants();
                    let _ = m.extensions.unicode.set_attribute("zzz");
                    let _ = m.extensions.private.add_tag("b");
                    m.id.region = None;
                    format!("{} | {}", m, x)
                }
                "to_string2" => format!("{} {:?}", z, z.id.language.as_str()),
                "into_parts" => {
                    let (l, s, r, vs, e) = (*x).clone().into_parts();
                    let back = Locale::from_parts(l, s, r, &vs, Some(e.parse().unwrap()));
                    format!("{} {}", back == *y, back)
                }
                _ => return None,
            }
        }
        _ => return None,
    })
}

fn cviol(coll: &Collector, order: u64, sub: &'static str, class: String, case: String, expected: String, observed: String) {
    coll.push(order, Violation { sub, class, case: Case::Text(case), expected, observed });
}

/// Explores one family of operations; violations are filed under `sub`.
pub fn run_family(ctx: &Ctx, family: &str, sub: &'static str, rep: &mut Report) {
    run_family_mode(ctx, family, sub, rep, false)
}

/// `total`: results are not compared, only termination (panic / deadlock / livelock under some
/// schedule) is reported -- the reading of C01.
pub fn run_family_mode(ctx: &Ctx, family: &str, sub: &'static str, rep: &mut Report, total: bool) {
    let t0 = std::time::Instant::now();
    let built = match prepare(ctx) {
        Ok(b) => b,
        Err(e) => {
            rep.engine_failures.push(format!("schedule explorer: {}", e));
            return;
        }
    };
    let sched_dir = format!("{}/schedules-{}-{}", built.dir, ctx.prop, family);
    let _ = std::fs::remove_dir_all(&sched_dir);
    let mut hargs = vec!["explore", family, sched_dir.as_str()];
    if total {
        hargs.push("--total");
    }
    if !ctx.quick() {
        hargs.push("--deep");
    }
    let out = match std::process::Command::new(&built.bin).args(&hargs).stderr(std::process::Stdio::null()).output() {
        Ok(o) => o,
        Err(e) => {
            rep.engine_failures.push(format!("schedule explorer: cannot run the harness: {}", e));
            return;
        }
    };
    let text = String::from_utf8_lossy(&out.stdout);
    let Some(j) = text.lines().rev().find_map(|l| serde_json::from_str::<Value>(l).ok()) else {
        rep.engine_failures.push(format!("schedule explorer: the harness gave no result (status {:?})", out.status));
        return;
    };
    let coll = std::mem::take(&mut rep.collector);
    if let Some(sf) = j["sequential_failure"].as_str() {
        cviol(&coll, 0, sub, "an operation's result depends on the calls made before it (sequential run of the rewritten copy)".into(),
              format!("conc:{}:sequential", family), "the same result every time".into(), sf.to_string());
        rep.collector = coll;
        return;
    }
    let ops: Vec<String> = j["ops"].as_array().map(|a| a.iter().filter_map(|x| x.as_str().map(String::from)).collect()).unwrap_or_default();
    let seq: Vec<String> = j["sequential"].as_array().map(|a| a.iter().filter_map(|x| x.as_str().map(String::from)).collect()).unwrap_or_default();
    // conformance: the rewritten copy answers like the real library
    let mut bound = 0u64;
    for (o, s) in ops.iter().zip(seq.iter()) {
        match real_result(o) {
            Some(r) if r == *s => bound += 1,
            Some(r) => rep.engine_failures.push(format!("schedule explorer: the rewritten copy answers {} with {}, the real library with {}", o, s, r)),
            None => rep.engine_failures.push(format!("schedule explorer: unknown operation {}", o)),
        }
    }
    if ops.is_empty() || ops.len() != seq.len() {
        rep.engine_failures.push("schedule explorer: empty operation list".into());
    }
    if let Some(f) = j.get("failure") {
        let combo: Vec<String> = vec![f["combo"].as_str().unwrap_or("").to_string()];
        let names: Vec<String> = f["ops"].as_array().map(|a| a.iter().filter_map(|x| x.as_str().map(String::from)).collect()).unwrap_or_default();
        let sched = std::fs::read_to_string(f["schedule_file"].as_str().unwrap_or("")).unwrap_or_default();
        let msg = f["message"].as_str().unwrap_or("").replace('\n', " ");
        cviol(&coll, 0, sub,
              format!("{}: threads {}", if total { "a call panics, deadlocks or spins under some thread schedule" } else { "a result depends on the thread schedule (shared mutable state)" }, names.join(" || ")),
              format!("conc:{}{}:{}:{}", family, if total { "+total" } else { "" }, combo.join(","), sched.trim()),
              "every schedule gives each operation its sequential result".into(), msg);
    }
    rep.collector = coll;
    let schedules = j["schedules"].as_u64().unwrap_or(0);
    let combos = j["combos_explored"].as_u64().unwrap_or(0);
    rep.states += schedules;
    rep.transitions += schedules * 4;
    rep.traces += bound;
    rep.evaluations += schedules;
    if j.get("failure").is_some() {
        rep.exhaustive = false;
    }
    let e = rep.extra.entry("schedule_exploration".to_string()).or_insert_with(|| json!({}));
    e[family] = json!({
        "engine": "shuttle 0.9.3 DfsScheduler (exhaustive, unbounded) over a copy of the library with std::sync / std::thread / thread_local! rewritten to shuttle's",
        "operations": ops, "sequential_results": seq,
        "bodies": j["combos"], "bodies_explored": combos, "schedules": schedules, "max_schedules_per_body": j["max_schedules_per_combo"],
        "body": "reset(); a(); spawn{a()} || spawn{b()} [|| spawn{c()}]; join; a(); b(); [c()]  -- all ordered pairs, all ordered triples of the first five operations [thorough: also two calls per thread, spawn{a(); b()} || spawn{c(); d()} over the first four operations and spawn{a(); b()} || spawn{b(); a()} over all pairs]",
        "sync_tokens_rewritten_in_library": built.rewritten, "library_files": built.files,
        "operations_bound_to_real_library": bound,
        "note": if built.rewritten == 0 { "the library contains no synchronisation primitive, thread-local or static mutable state: the only scheduling points are spawn/join, so every schedule is equivalent to a sequential order of the calls; the exploration confirms that those agree" } else { "the library uses synchronisation primitives; every access is a scheduling point" },
        "wall_s": (t0.elapsed().as_secs_f64() * 100.0).round() / 100.0,
    });
}

/// conc:<family>:<i,j[,k]>:<schedule>
pub fn replay(ctx: &Ctx, sub: &'static str, text: &str, coll: &Collector) {
    let parts: Vec<&str> = text.splitn(4, ':').collect();
    if parts.len() < 3 {
        return;
    }
    let Ok(built) = prepare(ctx) else { return };
    let (fam, total) = match parts[1].strip_suffix("+total") {
        Some(f) => (f, true),
        None => (parts[1], false),
    };
    if parts[2] == "sequential" {
        let sched_dir = format!("{}/schedules-replay", built.dir);
        if let Ok(o) = std::process::Command::new(&built.bin).args(["explore", fam, &sched_dir]).stderr(std::process::Stdio::null()).output() {
            let t = String::from_utf8_lossy(&o.stdout);
            if let Some(j) = t.lines().rev().find_map(|l| serde_json::from_str::<Value>(l).ok()) {
                if let Some(sf) = j["sequential_failure"].as_str() {
                    cviol(coll, 0, sub, "sequential".into(), text.to_string(), "the same result every time".into(), sf.to_string());
                }
            }
        }
        return;
    }
    if parts.len() < 4 {
        return;
    }
    let file = format!("{}/replay-schedule.txt", built.dir);
    if std::fs::write(&file, parts[3]).is_err() {
        return;
    }
    let mut args = vec!["replay".to_string(), fam.to_string(), parts[2].to_string(), file];
    if total {
        args.push("--total".into());
    }
    if let Ok(o) = std::process::Command::new(&built.bin).args(&args).stderr(std::process::Stdio::null()).output() {
        let t = String::from_utf8_lossy(&o.stdout);
        if let Some(l) = t.lines().find(|l| l.starts_with("REPRODUCED")) {
            cviol(coll, 0, sub, "schedule".into(), text.to_string(), "every schedule gives each operation its sequential result".into(), l.to_string());
        }
    }
}

//! C16 — compile-time macros equal run-time parsing (E5: enumeration of programs).
//!
//! A package is generated under <verif>/work/c16 whose binaries consist of one macro invocation
//! per line over a bounded-exhaustive literal set:
//!   good_<i>: well-formed literals; every expansion is bound with `let`, compared (== and
//!             structural Debug text) with run-time parsing of the same literal under
//!             catch_unwind;
//!   bad_<i> : ill-formed literals; the compiler must report an error whose macro back-trace
//!             ends at exactly that line, for every line.
//! The package depends on the façade crates of the repository under test (features `macros`)
//! by path, so it is rebuilt from the working tree.

use crate::engine::*;
use crate::spaces::*;
use refmodel::{self as rm, LangIdVerdict, Zone};
use serde_json::{json, Value};
use std::collections::{BTreeMap, BTreeSet};
use std::fmt::Write as _;

#[derive(Clone, Copy, PartialEq, Eq, PartialOrd, Ord, Debug)]
pub enum Mac {
    Locale,
    LangId,
    Lang,
    Script,
    Region,
    Variant,
}

impl Mac {
    fn name(self) -> &'static str {
        match self {
            Mac::Locale => "locale!",
            Mac::LangId => "langid!",
            Mac::Lang => "lang!",
            Mac::Script => "script!",
            Mac::Region => "region!",
            Mac::Variant => "variant!",
        }
    }
    fn ty(self) -> &'static str {
        match self {
            Mac::Locale => "Locale",
            Mac::LangId => "LanguageIdentifier",
            Mac::Lang => "Language",
            Mac::Script => "Script",
            Mac::Region => "Region",
            Mac::Variant => "Variant",
        }
    }
    /// Some(true) = well-formed, Some(false) = ill-formed, None = either (left out)
    fn classify(self, s: &str) -> Option<bool> {
        let b = s.as_bytes();
        match self {
            Mac::Locale => match rm::locale_zone(b).0 {
                Zone::MustAccept(_) => Some(true),
                Zone::MustReject => Some(false),
                _ => None,
            },
            Mac::LangId => Some(matches!(rm::langid_oracle(b), LangIdVerdict::Accept(_))),
            Mac::Lang => Some(rm::is_lang(b)),
            Mac::Script => Some(rm::is_script(b)),
            Mac::Region => Some(rm::is_region(b)),
            Mac::Variant => Some(rm::is_variant(b)),
        }
    }
}

/// the literal universe: UTF-8 inputs of the token tree over a 15-token alphabet, the skeletons
/// of a two-id family with every extension shape, every language-id skeleton, odd-case and
/// '_' renderings, and single-token literals for the subtag macros
fn literal_universe(ctx: &Ctx) -> Vec<String> {
    let mut set: BTreeSet<String> = BTreeSet::new();
    let mini = sigma_mini();
    let depth = if ctx.quick() { 3 } else { 4 };
    let tree = TokenTree::new("lits", mini, 1, depth, true);
    let mut b = vec![];
    for i in 0..tree.total() {
        tree.decode(i, &mut b);
        if let Ok(s) = std::str::from_utf8(&b) {
            set.insert(s.to_string());
        }
    }
    let ids: Vec<&str> = if ctx.quick() { vec!["en", "EN_latn_us_VALENCIA-1996"] } else { vec!["en", "EN_latn_us_VALENCIA-1996", "und", "abcdefgh-001"] };
    let mut us: Vec<&str> = U_SHAPES.to_vec();
    let mut ts: Vec<&str> = T_SHAPES.to_vec();
    let mut xs: Vec<&str> = X_SHAPES.to_vec();
    if !ctx.quick() {
        us.extend(U_SHAPES_REP3);
        ts.extend(T_SHAPES_REP3);
        xs.extend(X_SHAPES_REP3);
    }
    for id in &ids {
        for u in &us {
            for t in &ts {
                for x in &xs {
                    for u_first in [false, true] {
                        if u_first && (u.is_empty() || t.is_empty()) {
                            continue;
                        }
                        let parts: Vec<&str> = if u_first { vec![id, u, t, x] } else { vec![id, t, u, x] };
                        let s = parts.iter().filter(|p| !p.is_empty()).copied().collect::<Vec<_>>().join("-");
                        set.insert(s.clone());
                        if !ctx.quick() || (u.len() + t.len()) % 3 == 0 {
                            set.insert(s.to_ascii_uppercase().replace('-', "_"));
                        }
                    }
                }
            }
        }
    }
    for s in langid_skeleton_strings(true, !ctx.quick()) {
        set.insert(s.to_ascii_uppercase());
        set.insert(s.replace('-', "_"));
        set.insert(s);
    }
    // order hazards (lexicographic vs integer order of the raw parts the macros emit)
    for l in order_lists() {
        if ctx.quick() && l.len() == 3 && l[0] != "zaaaa" && l[0] != "1zzz" {
            continue;
        }
        let j = l.join("-");
        set.insert(format!("en-{}", j));
        set.insert(format!("und-Latn-US-{}-u-ca-buddhist", j));
        set.insert(format!("en-t-de-{}", j));
    }
    // count ladder (DESIGN 0.8): the macros build their values from the parsed parts at compile time
    // (arrays of raw integers); a fixed-size buffer or a count-dependent path in a proc macro has
    // its boundary at some element count.  Every list position at every n in the ascending,
    // descending and scrambled order, and with one repeat of the first element at the end.
    {
        use super::counts::{input_text, Spec, DIMS};
        let n_max = if ctx.quick() { 34 } else { 72 };
        let step = if ctx.quick() { 3 } else { 1 };
        for dim in DIMS {
            for n in 0..=n_max {
                // every n for the variants (both macros parse them); every third n elsewhere in the quick tier
                if dim != "variants" && n % step != 0 && !matches!(n, 8 | 9 | 16 | 17 | 32 | 33) {
                    continue;
                }
                set.insert(input_text(dim, &Spec { n, kind: 0, a: 0, b: 0 }));
                if n >= 2 {
                    set.insert(input_text(dim, &Spec { n, kind: 1, a: 0, b: 0 }));
                    set.insert(input_text(dim, &Spec { n, kind: 4, a: n - 1, b: n }));
                }
                if n >= 4 {
                    set.insert(input_text(dim, &Spec { n, kind: 3, a: 0, b: 0 }));
                }
            }
        }
    }
    // single tokens (subtag macros): the full class alphabet and the valid exemplars
    for t in sigma_full(ctx.seed).into_iter().chain(super::subtags::valid_subtags()) {
        if let Ok(s) = String::from_utf8(t) {
            set.insert(s);
        }
    }
    // near misses of skeletons: one token edit with a few tokens (mostly ill-formed)
    let near: Vec<Vec<u8>> = ["x1", "UND", "toolongsubtag", "u", "t", "a", "", "*", "Latn", "h0", "ca"].iter().map(|s| s.as_bytes().to_vec()).collect();
    let sk = [
        build_skeleton("en-Latn-US-valencia", "u-abc-ca-buddhist", "t-de-h0-hybrid", "x-a", false),
        build_skeleton("und", "u-ca", "", "", false),
        build_skeleton("en", "", "t-h0-hybrid", "x-zz-a", false),
    ];
    let es = EditSpace::new("near", sk.to_vec(), near, vec![b'*', b'_', b'1']);
    let mut buf = vec![];
    for i in 0..es.outer_len() {
        es.visit(i, &mut buf, &mut |b| {
            if let Ok(s) = std::str::from_utf8(b) {
                set.insert(s.to_string());
            }
        });
    }
    set.into_iter().collect()
}

#[derive(Clone, Debug)]
pub struct Inv {
    pub mac: Mac,
    pub lit: String,
}

fn invocations(ctx: &Ctx) -> (Vec<Inv>, Vec<Inv>, u64) {
    let uni = literal_universe(ctx);
    let mut good = vec![];
    let mut bad = vec![];
    let mut either = 0u64;
    for lit in &uni {
        let single = !lit.contains('-') && !lit.contains('_');
        let mut macs = vec![Mac::Locale, Mac::LangId];
        if single {
            macs.extend([Mac::Lang, Mac::Script, Mac::Region, Mac::Variant]);
        }
        for m in macs {
            match m.classify(lit) {
                Some(true) => good.push(Inv { mac: m, lit: lit.clone() }),
                Some(false) => bad.push(Inv { mac: m, lit: lit.clone() }),
                None => either += 1,
            }
        }
    }
    // bound the number of ill-formed invocations of the two big macros (compile time); the
    // well-formed ones are all kept
    let cap = if ctx.quick() { 1500 } else { 12000 };
    for m in [Mac::Locale, Mac::LangId] {
        let idx: Vec<usize> = bad.iter().enumerate().filter(|(_, i)| i.mac == m).map(|(k, _)| k).collect();
        if idx.len() > cap {
            // keep an evenly spaced subset (deterministic), shortest literals first are all kept
            let keep: BTreeSet<usize> = (0..cap).map(|k| idx[k * idx.len() / cap]).collect();
            let mut k = 0;
            bad.retain(|i| {
                let r = i.mac != m || keep.contains(&k);
                k += 1;
                r
            });
        }
    }
    (good, bad, either)
}

fn lit_src(s: &str) -> String {
    // Debug of a str is a valid Rust string literal
    format!("{:?}", s)
}

/// Other spellings of the same string value as a Rust literal: the macros receive tokens, not
/// values, so `r"en-US"`, `"en\x2dUS"` and `"\u{65}n-US"` are different inputs to them and the
/// same input to the run-time parser.  None for texts a spelling cannot express.
fn lit_spellings(s: &str) -> Vec<(&'static str, String)> {
    let mut v = vec![];
    if !s.contains('"') && !s.contains('\r') {
        v.push(("raw", format!("r\"{}\"", s)));
        if !s.contains("\"#") {
            v.push(("raw#", format!("r#\"{}\"#", s)));
        }
    }
    if s.is_ascii() {
        v.push(("hex escapes", format!("\"{}\"", s.bytes().map(|b| format!("\\x{:02x}", b)).collect::<String>())));
    }
    v.push(("unicode escapes", format!("\"{}\"", s.chars().map(|c| format!("\\u{{{:x}}}", c as u32)).collect::<String>())));
    if s.len() >= 2 && s.is_char_boundary(1) {
        // a line continuation inside the literal
        v.push(("line continuation", format!("\"{}\\\n        {}\"", &lit_src(&s[..1])[1..lit_src(&s[..1]).len() - 1], &lit_src(&s[1..])[1..lit_src(&s[1..]).len() - 1])));
    }
    v
}

const PRELUDE_GOOD: &str = r#"#![allow(unused_imports, unused_unsafe, clippy::all)]
use std::fmt::Debug;
use std::str::FromStr;
use unic_langid::subtags::{Language, Region, Script, Variant};
use unic_langid::{lang, langid, langid_slice, langids, region, script, variant, LanguageIdentifier};
use unic_locale::{locale, locales, Locale};
fn cmp<T: FromStr + PartialEq + Debug>(v: T, s: &str) -> bool where <T as FromStr>::Err: Debug {
    match s.parse::<T>() { Ok(p) => p == v && format!("{:?}", p) == format!("{:?}", v), Err(_) => false }
}
fn cmpv<T: FromStr + PartialEq + Debug>(v: &[T], s: &[&str]) -> bool where <T as FromStr>::Err: Debug {
    v.len() == s.len() && v.iter().zip(s.iter()).all(|(a, b)| match b.parse::<T>() { Ok(p) => p == *a && format!("{:?}", p) == format!("{:?}", a), Err(_) => false })
}
fn t(line: u32, f: impl FnOnce() -> bool + std::panic::UnwindSafe) {
    match std::panic::catch_unwind(f) { Ok(true) => println!("OK {}", line), Ok(false) => println!("MISMATCH {}", line), Err(_) => println!("PANIC {}", line) }
}
fn main() {
    std::panic::set_hook(Box::new(|_| {}));
"#;

const PRELUDE_BAD: &str = r#"#![allow(unused_imports, unused_unsafe, unused_variables, clippy::all)]
use unic_langid::subtags::{Language, Region, Script, Variant};
use unic_langid::{lang, langid, langid_slice, langids, region, script, variant, LanguageIdentifier};
use unic_locale::{locale, locales, Locale};
fn main() {
"#;

/// line -> what is on it
#[derive(Clone, Debug)]
pub enum LineKind {
    One(Inv),
    List(&'static str, Vec<String>),
}

struct Bin {
    name: String,
    src: String,
    lines: BTreeMap<u32, LineKind>,
}

fn gen_good(name: &str, invs: &[Inv], with_lists: bool) -> Bin {
    let mut src = String::from(PRELUDE_GOOD);
    let mut lines = BTreeMap::new();
    let mut line = src.matches('\n').count() as u32;
    let mut nth = 0usize;
    for i in invs {
        line += 1;
        let l = lit_src(&i.lit);
        let _ = writeln!(src, "    t({}, || {{ let v: {} = {}({}); cmp(v, {}) }});", line, i.mac.ty(), i.mac.name(), l, l);
        lines.insert(line, LineKind::One(i.clone()));
        // other spellings of the same literal (every 9th invocation, and every literal with a
        // separator among the first hundred)
        nth += 1;
        if nth % 9 == 0 || (nth < 100 && i.lit.contains('-')) {
            for (_what, sp) in lit_spellings(&i.lit) {
                if sp.contains('\n') {
                    line += 1; // the literal spans two source lines; the invocation starts on the first
                    let _ = writeln!(src, "    t({}, || {{ let v: {} = {}({}); cmp(v, {}) }});", line, i.mac.ty(), i.mac.name(), sp, l);
                    lines.insert(line, LineKind::One(i.clone()));
                    line += 1; // (the continuation line reports nothing of its own)
                } else {
                    line += 1;
                    let _ = writeln!(src, "    t({}, || {{ let v: {} = {}({}); cmp(v, {}) }});", line, i.mac.ty(), i.mac.name(), sp, l);
                    lines.insert(line, LineKind::One(i.clone()));
                }
            }
        }
    }
    if with_lists {
        // list macros over chunks, with and without a trailing comma
        let ids: Vec<&Inv> = invs.iter().filter(|i| i.mac == Mac::LangId).collect();
        let locs: Vec<&Inv> = invs.iter().filter(|i| i.mac == Mac::Locale).collect();
        for (k, chunk) in ids.chunks(40).enumerate() {
            let lits: Vec<String> = chunk.iter().map(|i| lit_src(&i.lit)).collect();
            let tc = if k % 2 == 0 { "," } else { "" };
            line += 1;
            let _ = writeln!(src, "    t({}, || {{ let v: Vec<LanguageIdentifier> = langids![{}{}]; cmpv(&v, &[{}]) }});", line, lits.join(", "), tc, lits.join(", "));
            lines.insert(line, LineKind::List("langids!", chunk.iter().map(|i| i.lit.clone()).collect()));
            line += 1;
            let _ = writeln!(src, "    t({}, || {{ let v: &[LanguageIdentifier] = langid_slice![{}{}]; cmpv(v, &[{}]) }});", line, lits.join(", "), tc, lits.join(", "));
            lines.insert(line, LineKind::List("langid_slice!", chunk.iter().map(|i| i.lit.clone()).collect()));
        }
        for (k, chunk) in locs.chunks(40).enumerate() {
            let lits: Vec<String> = chunk.iter().map(|i| lit_src(&i.lit)).collect();
            let tc = if k % 2 == 0 { "," } else { "" };
            line += 1;
            let _ = writeln!(src, "    t({}, || {{ let v: Vec<Locale> = locales![{}{}]; cmpv(&v, &[{}]) }});", line, lits.join(", "), tc, lits.join(", "));
            lines.insert(line, LineKind::List("locales!", chunk.iter().map(|i| i.lit.clone()).collect()));
        }
        // empty lists
        line += 1;
        let _ = writeln!(src, "    t({}, || {{ let a: Vec<LanguageIdentifier> = langids![]; let b: &[LanguageIdentifier] = langid_slice![]; let c: Vec<Locale> = locales![]; a.is_empty() && b.is_empty() && c.is_empty() }});", line);
        lines.insert(line, LineKind::List("empty lists", vec![]));
    }
    src.push_str("    println!(\"DONE\");\n}\n");
    Bin { name: name.to_string(), src, lines }
}

fn gen_bad(name: &str, invs: &[Inv]) -> Bin {
    let mut src = String::from(PRELUDE_BAD);
    let mut lines = BTreeMap::new();
    let mut line = src.matches('\n').count() as u32;
    for (k, i) in invs.iter().enumerate() {
        line += 1;
        let l = lit_src(&i.lit);
        // every 16th ill-formed langid/locale literal goes through a list macro instead
        if k % 16 == 15 && i.mac == Mac::LangId {
            let _ = writeln!(src, "    let _x = langids![\"en\", {}];", l);
        } else if k % 16 == 15 && i.mac == Mac::Locale {
            let _ = writeln!(src, "    let _x = locales![{}, \"en\"];", l);
        } else {
            let _ = writeln!(src, "    let _x = {}({});", i.mac.name(), l);
        }
        lines.insert(line, LineKind::One(i.clone()));
        // the same ill-formed value in the other single-line spellings (every 20th): still an
        // error at the invocation
        if k % 20 == 7 {
            for (_what, sp) in lit_spellings(&i.lit) {
                if sp.contains('\n') {
                    continue;
                }
                line += 1;
                let _ = writeln!(src, "    let _x = {}({});", i.mac.name(), sp);
                lines.insert(line, LineKind::One(i.clone()));
            }
        }
    }
    src.push_str("}\n");
    Bin { name: name.to_string(), src, lines }
}

fn work_dir() -> String {
    format!("{}/work/c16", crate::verif_dir())
}

fn write_package(ctx: &Ctx, bins: &[Bin]) -> Result<String, String> {
    let dir = work_dir();
    let _ = std::fs::remove_dir_all(format!("{}/src", dir));
    std::fs::create_dir_all(format!("{}/src/bin", dir)).map_err(|e| e.to_string())?;
    let toml = format!(
        "[package]\nname = \"c16\"\nversion = \"0.0.0\"\nedition = \"2021\"\n\n[dependencies]\nunic-langid = {{ path = \"{r}/unic-langid\", features = [\"macros\"] }}\nunic-locale = {{ path = \"{r}/unic-locale\", features = [\"macros\"] }}\n\n[workspace]\n\n[profile.dev]\nopt-level = 0\ndebug = false\nincremental = false\n",
        r = ctx.repo
    );
    std::fs::write(format!("{}/Cargo.toml", dir), toml).map_err(|e| e.to_string())?;
    // seed the lock file from the repository's (offline resolution)
    if !std::path::Path::new(&format!("{}/Cargo.lock", dir)).exists() {
        // seed the lock file (offline resolution): the repository's own, else the committed copy
        let mc_src = std::env::var("VERIF_MC_SRC").unwrap_or_else(|_| "/verif/mc".to_string());
        let seeds = [format!("{}/Cargo.lock", ctx.repo), format!("{}/locks/c16.lock", mc_src)];
        let seed = seeds.iter().find(|p| std::path::Path::new(p).exists()).ok_or_else(|| "no Cargo.lock to seed the generated package from".to_string())?;
        std::fs::copy(seed, format!("{}/Cargo.lock", dir)).map_err(|e| e.to_string())?;
    }
    for b in bins {
        std::fs::write(format!("{}/src/bin/{}.rs", dir, b.name), &b.src).map_err(|e| e.to_string())?;
    }
    Ok(dir)
}

fn span_lines(span: &Value, file_suffix: &str, out: &mut BTreeSet<u32>) {
    if let Some(f) = span["file_name"].as_str() {
        if f.ends_with(file_suffix) {
            if let Some(l) = span["line_start"].as_u64() {
                out.insert(l as u32);
            }
        }
    }
    if let Some(exp) = span.get("expansion") {
        if !exp.is_null() {
            span_lines(&exp["span"], file_suffix, out);
        }
    }
}

fn message_lines(msg: &Value, file_suffix: &str, out: &mut BTreeSet<u32>) {
    if let Some(spans) = msg["spans"].as_array() {
        for s in spans {
            span_lines(s, file_suffix, out);
        }
    }
    if let Some(ch) = msg["children"].as_array() {
        for c in ch {
            message_lines(c, file_suffix, out);
        }
    }
}

struct BuildOut {
    /// bin -> lines of that bin's source reached by an error diagnostic, with the first message
    errors: BTreeMap<String, BTreeMap<u32, String>>,
    /// errors that could not be attributed to a line of a generated binary
    unattributed: Vec<String>,
    built: BTreeSet<String>,
    wall: f64,
}

fn cargo_build(dir: &str, bins: &[&str]) -> Result<BuildOut, String> {
    let t0 = std::time::Instant::now();
    let target = std::env::var("VERIF_C16_TARGET").unwrap_or_else(|_| format!("{}/work/target-c16", crate::verif_dir()));
    let mut cmd = std::process::Command::new("cargo");
    cmd.args(["build", "--offline", "--keep-going", "--message-format=json", "-q"]);
    for b in bins {
        cmd.args(["--bin", b]);
    }
    let out = cmd
        .current_dir(dir)
        .env("CARGO_TARGET_DIR", &target)
        .env("CARGO_NET_OFFLINE", "true")
        .env("CARGO_TERM_COLOR", "never")
        .env_remove("RUSTFLAGS")
        .output()
        .map_err(|e| format!("cannot run cargo: {}", e))?;
    let mut bo = BuildOut { errors: BTreeMap::new(), unattributed: vec![], built: BTreeSet::new(), wall: 0.0 };
    for line in String::from_utf8_lossy(&out.stdout).lines() {
        let Ok(v) = serde_json::from_str::<Value>(line) else { continue };
        match v["reason"].as_str() {
            Some("compiler-message") => {
                let msg = &v["message"];
                if msg["level"].as_str() != Some("error") {
                    continue;
                }
                let text = msg["message"].as_str().unwrap_or("").to_string();
                if text.starts_with("aborting due to") || text.starts_with("could not compile") {
                    continue;
                }
                let tname = v["target"]["name"].as_str().unwrap_or("").to_string();
                let mut ls = BTreeSet::new();
                message_lines(msg, &format!("src/bin/{}.rs", tname), &mut ls);
                if ls.is_empty() {
                    bo.unattributed.push(format!("[{}] {}", tname, text));
                } else {
                    let e = bo.errors.entry(tname).or_default();
                    for l in ls {
                        e.entry(l).or_insert_with(|| text.clone());
                    }
                }
            }
            Some("compiler-artifact") => {
                if v["target"]["kind"].as_array().map_or(false, |k| k.iter().any(|x| x == "bin")) {
                    if let Some(n) = v["target"]["name"].as_str() {
                        if v["executable"].is_string() {
                            bo.built.insert(n.to_string());
                        }
                    }
                }
            }
            _ => {}
        }
    }
    if bo.built.is_empty() && bo.errors.is_empty() {
        let err = String::from_utf8_lossy(&out.stderr);
        return Err(format!("cargo build produced neither binaries nor attributable errors: {}", err.chars().take(1500).collect::<String>()));
    }
    bo.wall = t0.elapsed().as_secs_f64();
    Ok(bo)
}

fn mviol(coll: &Collector, order: u64, sub: &'static str, class: String, what: &LineKind, expected: String, observed: String) {
    let text = match what {
        LineKind::One(i) => format!("macro:{}:{}", i.mac.name(), hex(i.lit.as_bytes())),
        LineKind::List(n, lits) => format!("macro:{}:[{}]", n, lits.iter().map(|l| hex(l.as_bytes())).collect::<Vec<_>>().join(",")),
    };
    coll.push(order, Violation { sub, class, case: Case::Text(text), expected, observed });
}

fn describe(k: &LineKind) -> String {
    match k {
        LineKind::One(i) => format!("{}({:?})", i.mac.name(), i.lit),
        LineKind::List(n, lits) => format!("{}[{} literals, first {:?}]", n, lits.len(), lits.first()),
    }
}

/// The facade crates gate their macros on the optional dependency (`unic-langid-macros`,
/// `unic-locale-macros`); the feature `macros` only forwards to it.  A user can enable either name.
/// The generated programs are built with `macros`; this small program is built with the
/// dependency-named features and uses every macro once -- a macro that is gated on one name and
/// re-exported under the other is missing here.
fn check_dep_named_features(ctx: &Ctx, rep: &mut Report, coll: &Collector) {
    let dir = format!("{}/work/c16cfg", crate::verif_dir());
    let t0 = std::time::Instant::now();
    let r = (|| -> Result<(), String> {
        std::fs::create_dir_all(format!("{}/src", dir)).map_err(|e| e.to_string())?;
        let toml = format!(
            "[package]\nname = \"c16cfg\"\nversion = \"0.0.0\"\nedition = \"2021\"\n\n[dependencies]\nunic-langid = {{ path = \"{r}/unic-langid\", features = [\"unic-langid-macros\"] }}\nunic-locale = {{ path = \"{r}/unic-locale\", features = [\"unic-locale-macros\"] }}\n\n[workspace]\n\n[profile.dev]\nopt-level = 0\ndebug = false\nincremental = false\n",
            r = ctx.repo
        );
        std::fs::write(format!("{}/Cargo.toml", dir), toml).map_err(|e| e.to_string())?;
        if !std::path::Path::new(&format!("{}/Cargo.lock", dir)).exists() {
            let mc_src = std::env::var("VERIF_MC_SRC").unwrap_or_else(|_| "/verif/mc".to_string());
            let seeds = [format!("{}/Cargo.lock", ctx.repo), format!("{}/locks/c16.lock", mc_src)];
            let seed = seeds.iter().find(|p| std::path::Path::new(p).exists()).ok_or_else(|| "no Cargo.lock to seed the generated package from".to_string())?;
            std::fs::copy(seed, format!("{}/Cargo.lock", dir)).map_err(|e| e.to_string())?;
        }
        let main = r#"use unic_langid::{lang, langid, langid_slice, langids, region, script, variant, LanguageIdentifier};
use unic_langid::subtags::{Language, Region, Script, Variant};
use unic_locale::{locale, locales, Locale};
fn main() {
    let mut bad = 0;
    let mut t = |name: &str, ok: bool| { if !ok { println!("MISMATCH {}", name); bad += 1; } };
    t("lang!", lang!("en") == "en".parse::<Language>().unwrap());
    t("script!", script!("Latn") == "Latn".parse::<Script>().unwrap());
    t("region!", region!("US") == "US".parse::<Region>().unwrap());
    t("variant!", variant!("valencia") == "valencia".parse::<Variant>().unwrap());
    t("langid!", langid!("en-Latn-US-valencia") == "en-Latn-US-valencia".parse::<LanguageIdentifier>().unwrap());
    let v: Vec<LanguageIdentifier> = langids!["en-US", "pl",];
    t("langids!", v == vec!["en-US".parse::<LanguageIdentifier>().unwrap(), "pl".parse().unwrap()]);
    let s: &[LanguageIdentifier] = langid_slice!["en-US", "pl"];
    t("langid_slice!", s == &v[..]);
    t("locale!", locale!("en-US-u-ca-buddhist") == "en-US-u-ca-buddhist".parse::<Locale>().unwrap());
    let l: Vec<Locale> = locales!["en-US", "de-t-en",];
    t("locales!", l == vec!["en-US".parse::<Locale>().unwrap(), "de-t-en".parse().unwrap()]);
    println!("DONE {}", bad);
}
"#;
        std::fs::write(format!("{}/src/main.rs", dir), main).map_err(|e| e.to_string())?;
        Ok(())
    })();
    if let Err(e) = r {
        rep.engine_failures.push(format!("cannot write the c16cfg package: {}", e));
        return;
    }
    let target = std::env::var("VERIF_C16_TARGET").unwrap_or_else(|_| format!("{}/work/target-c16", crate::verif_dir()));
    let out = std::process::Command::new("cargo")
        .args(["run", "--offline", "-q"])
        .current_dir(&dir)
        .env("CARGO_TARGET_DIR", format!("{}-cfg", target))
        .env("CARGO_NET_OFFLINE", "true")
        .env("CARGO_TERM_COLOR", "never")
        .env_remove("RUSTFLAGS")
        .output();
    match out {
        Ok(o) => {
            let so = String::from_utf8_lossy(&o.stdout).to_string();
            let se = String::from_utf8_lossy(&o.stderr).to_string();
            // a facade that no longer HAS a dependency-named feature (e.g. `dep:` syntax in its
            // manifest) cannot be configured this way: nothing to check, not a violation
            let no_such_feature = !o.status.success() && (se.contains("does not have the feature") || se.contains("does not have these features") || se.contains("does not have feature") || se.contains("does not have that feature") || se.contains("which does not have"));
            if no_such_feature {
                rep.extra.insert("dep_named_features".into(), json!({"skipped": "the facade crates do not declare the dependency-named features any more", "cargo": se.lines().find(|l| l.starts_with("error")).unwrap_or("")}));
                return;
            }
            if !o.status.success() || !so.contains("DONE 0") {
                let first = se.lines().find(|l| l.starts_with("error")).unwrap_or("").to_string();
                coll.push(0, Violation {
                    sub: "c16.config",
                    class: "built with the dependency-named features (unic-langid-macros, unic-locale-macros) a macro is missing or differs from run-time parsing".into(),
                    case: Case::Text("config:dep-named-features".into()),
                    expected: "every macro available and equal to run-time parsing".into(),
                    observed: format!("{} {}", so.lines().filter(|l| l.starts_with("MISMATCH")).collect::<Vec<_>>().join("; "), first),
                });
            }
        }
        Err(e) => rep.engine_failures.push(format!("cannot run cargo for c16cfg: {}", e)),
    }
    rep.states += 9;
    rep.transitions += 9;
    rep.traces += 9;
    rep.evaluations += 9;
    rep.extra.insert("dep_named_features".into(), json!({"kind": "one program using all nine macros, built with the features unic-langid/unic-langid-macros and unic-locale/unic-locale-macros (the optional dependencies' own names) instead of `macros`", "invocations": 9, "wall_s": (t0.elapsed().as_secs_f64() * 100.0).round() / 100.0}));
}

pub fn run_c16(ctx: &Ctx) -> Report {
    let mut rep = Report::new();
    let (good, bad, either) = invocations(ctx);
    let nbins = if ctx.quick() { 4 } else { 12 };
    let split = |v: &[Inv], n: usize| -> Vec<Vec<Inv>> {
        let mut out = vec![vec![]; n];
        for (i, x) in v.iter().enumerate() {
            out[i % n].push(x.clone());
        }
        out
    };
    let coll = std::mem::take(&mut rep.collector);
    check_dep_named_features(ctx, &mut rep, &coll);
    let mut engine_fail = vec![];
    // ---------------- good programs
    let mut good_bins: Vec<Bin> = split(&good, nbins).iter().enumerate().map(|(i, v)| gen_good(&format!("good_{}", i), v, true)).collect();
    let mut bad_bins: Vec<Bin> = split(&bad, nbins).iter().enumerate().map(|(i, v)| gen_bad(&format!("bad_{}", i), v)).collect();
    let mut compile_rejected = 0u64;
    let mut walls = vec![];
    let mut ran_ok = 0u64;
    let mut ran_lines = 0u64;
    let mut err_lines_bad = 0u64;
    let dir = match write_package(ctx, &good_bins.iter().chain(bad_bins.iter()).map(|b| Bin { name: b.name.clone(), src: b.src.clone(), lines: b.lines.clone() }).collect::<Vec<_>>()) {
        Ok(d) => d,
        Err(e) => {
            rep.engine_failures.push(format!("cannot write the generated package: {}", e));
            rep.collector = coll;
            return rep;
        }
    };
    let names: Vec<String> = good_bins.iter().chain(bad_bins.iter()).map(|b| b.name.clone()).collect();
    let name_refs: Vec<&str> = names.iter().map(|s| s.as_str()).collect();
    match cargo_build(&dir, &name_refs) {
        Err(e) => engine_fail.push(e),
        Ok(bo) => {
            walls.push(bo.wall);
            for u in &bo.unattributed {
                engine_fail.push(format!("compiler error outside every invocation line: {}", u));
            }
            // good bins: every error line is a violation; regenerate without those lines
            let mut need_rebuild = vec![];
            for gb in good_bins.iter_mut() {
                if let Some(errs) = bo.errors.get(&gb.name) {
                    let mut drop_lits: Vec<(Mac, String)> = vec![];
                    let mut drop_lists = false;
                    for (line, text) in errs {
                        match gb.lines.get(line) {
                            Some(k) => {
                                compile_rejected += 1;
                                mviol(&coll, *line as u64, "c16.compile", format!("{} on a well-formed literal does not compile: {}", match k { LineKind::One(i) => i.mac.name(), LineKind::List(n, _) => n }, text.lines().next().unwrap_or("")),
                                      k, "compiles and equals run-time parsing".into(), format!("compile error: {}", text));
                                match k {
                                    LineKind::One(i) => drop_lits.push((i.mac, i.lit.clone())),
                                    LineKind::List(..) => drop_lists = true,
                                }
                            }
                            None => engine_fail.push(format!("compiler error in {} at line {} which is not an invocation line: {}", gb.name, line, text)),
                        }
                    }
                    let keep: Vec<Inv> = gb.lines.values().filter_map(|k| match k {
                        LineKind::One(i) if !drop_lits.iter().any(|(m, l)| *m == i.mac && *l == i.lit) => Some(i.clone()),
                        _ => None,
                    }).collect();
                    *gb = gen_good(&gb.name.clone(), &keep, !drop_lists);
                    need_rebuild.push(gb.name.clone());
                }
            }
            // bad bins: the set of error lines must be the set of invocation lines
            for bb in &bad_bins {
                let errs = bo.errors.get(&bb.name).cloned().unwrap_or_default();
                for (line, k) in &bb.lines {
                    if errs.contains_key(line) {
                        err_lines_bad += 1;
                    } else {
                        mviol(&coll, 1_000_000 + *line as u64, "c16.accepts_illformed", format!("{} on an ill-formed literal is not a compile-time error at its invocation", match k { LineKind::One(i) => i.mac.name(), LineKind::List(n, _) => n }),
                              k, "a compile-time error reported at this invocation".into(), "no error diagnostic reaches this line".into());
                    }
                }
                for (line, text) in &errs {
                    if !bb.lines.contains_key(line) {
                        engine_fail.push(format!("compiler error in {} at line {} which is not an invocation line: {}", bb.name, line, text));
                    }
                }
            }
            if !need_rebuild.is_empty() {
                for gb in &good_bins {
                    if need_rebuild.contains(&gb.name) {
                        let _ = std::fs::write(format!("{}/src/bin/{}.rs", dir, gb.name), &gb.src);
                    }
                }
                let refs: Vec<&str> = need_rebuild.iter().map(|s| s.as_str()).collect();
                match cargo_build(&dir, &refs) {
                    Ok(bo2) => {
                        walls.push(bo2.wall);
                        for (b, e) in &bo2.errors {
                            engine_fail.push(format!("{} still does not compile after removing the rejected lines: {:?}", b, e.iter().next()));
                        }
                    }
                    Err(e) => engine_fail.push(e),
                }
            }
            // run the good programs
            let target = std::env::var("VERIF_C16_TARGET").unwrap_or_else(|_| format!("{}/work/target-c16", crate::verif_dir()));
            for gb in &good_bins {
                let exe = format!("{}/debug/{}", target, gb.name);
                let out = std::process::Command::new(&exe).output();
                let out = match out {
                    Ok(o) => o,
                    Err(e) => {
                        engine_fail.push(format!("cannot run {}: {}", exe, e));
                        continue;
                    }
                };
                let txt = String::from_utf8_lossy(&out.stdout);
                let mut seen = BTreeSet::new();
                let mut done = false;
                for l in txt.lines() {
                    let mut it = l.split(' ');
                    match (it.next(), it.next().and_then(|x| x.parse::<u32>().ok())) {
                        (Some("OK"), Some(n)) => {
                            seen.insert(n);
                            ran_ok += 1;
                        }
                        (Some(kind @ ("MISMATCH" | "PANIC")), Some(n)) => {
                            seen.insert(n);
                            if let Some(k) = gb.lines.get(&n) {
                                let sub: &'static str = if kind == "PANIC" { "c16.runtime_panic" } else { "c16.value" };
                                mviol(&coll, 2_000_000 + n as u64, sub,
                                      format!("{}: {}", match k { LineKind::One(i) => i.mac.name(), LineKind::List(m, _) => m }, if kind == "PANIC" { "the expansion panics at run time" } else { "the macro value differs from run-time parsing" }),
                                      k, "== run-time parse, no panic".into(), format!("{} for {}", kind, describe(k)));
                            }
                        }
                        (Some("DONE"), _) => done = true,
                        _ => {}
                    }
                }
                ran_lines += seen.len() as u64;
                if !done || seen.len() != gb.lines.len() {
                    engine_fail.push(format!("{} did not report every line ({} of {}; exit {:?})", gb.name, seen.len(), gb.lines.len(), out.status.code()));
                }
            }
        }
    }
    rep.collector = coll;
    rep.engine_failures.extend(engine_fail);
    let n_good_lines: u64 = good_bins.iter().map(|b| b.lines.len() as u64).sum();
    let n_bad_lines: u64 = bad_bins.iter().map(|b| b.lines.len() as u64).sum();
    rep.states = good.len() as u64 + bad.len() as u64;
    rep.transitions = n_good_lines + n_bad_lines + compile_rejected;
    rep.traces = ran_lines + err_lines_bad;
    rep.evaluations = rep.transitions;
    rep.distinct_nontrivial = good.len() as u64;
    let per = |v: &[Inv]| -> Value {
        let mut m = BTreeMap::new();
        for i in v {
            *m.entry(i.mac.name()).or_insert(0u64) += 1;
        }
        json!(m)
    };
    rep.extra.insert("programs".into(), json!(good_bins.len() + bad_bins.len()));
    rep.extra.insert("wellformed_invocations".into(), per(&good));
    rep.extra.insert("illformed_invocations".into(), per(&bad));
    rep.extra.insert("literals_left_out_as_either_zone".into(), json!(either));
    rep.extra.insert("good_lines_run".into(), json!(ran_lines));
    rep.extra.insert("good_lines_ok".into(), json!(ran_ok));
    rep.extra.insert("good_lines_rejected_by_the_compiler".into(), json!(compile_rejected));
    rep.extra.insert("bad_lines".into(), json!(n_bad_lines));
    rep.extra.insert("bad_lines_with_an_error_at_the_invocation".into(), json!(err_lines_bad));
    rep.extra.insert("cargo_build_wall_s".into(), json!(walls));
    rep.extra.insert("package".into(), json!(work_dir()));
    if good.len() < 500 || bad.len() < 500 {
        rep.engine_failures.push(format!("vacuity guard: too few invocations (good {}, bad {})", good.len(), bad.len()));
    }
    rep.samples = good.iter().step_by(good.len() / 4 + 1).map(|i| json!({"well_formed": format!("{}({:?})", i.mac.name(), i.lit)}))
        .chain(bad.iter().step_by(bad.len() / 4 + 1).map(|i| json!({"ill_formed": format!("{}({:?})", i.mac.name(), i.lit)}))).collect();
    rep.rule = "E5: generated programs. Literal universe = UTF-8 token sequences over a 15-token alphabet to the stated depth, two (thorough: four) language ids x every extension shape x both -u-/-t- orders (also UPPER/'_' renderings), every language-id skeleton in three renderings, the single tokens of the class alphabet, one-edit neighbours of three skeletons, the count ladder (every list position at n = 0..34 [72] elements in ascending / descending / scrambled order and with one repeat). Each literal is classified by the reference recognisers per macro (locale!: must-accept / must-reject, either left out; langid!, lang!, script!, region!, variant!: exact). Well-formed: one invocation per line, bound with let, compared (== and Debug text) with run-time parsing under catch_unwind; plus langids!/langid_slice!/locales! over chunks. Ill-formed: one invocation per line (every 16th through a list macro); the set of lines reached by the compiler's error back-traces must be exactly the set of invocation lines. states = (macro, literal) invocations; distinct_nontrivial = well-formed invocations.".into();
    rep.assumptions = vec!["reference recognisers of DESIGN §3.1".into(), "non-UTF-8 literals cannot be written and are outside".into(), "ill-formed langid!/locale! literals are an evenly spaced subset above the per-tier cap (compile time)".into()];
    rep
}

// C20 transcript program (DESIGN §4 C20).  Written out by the checker into a generated package
// that depends on the two façade crates of the repository under test, and built once per
// feature set.  It uses only the feature-independent public API, runs the same enumerated
// corpus in every configuration and prints, per section, one FNV-1a digest per chunk of 1000
// transcript lines:   H <section> <chunk> <lines> <digest>
// `--chunk <section> <n>` prints the lines of one chunk instead (to locate a difference).
// The character_direction column is a section of its own and is always printed in full:
//   D <identifier> <direction>

use std::collections::BTreeSet;
use std::fmt::Write as _;
use unic_langid::subtags::{Language, Region, Script, Variant};
use unic_langid::{CharacterDirection, LanguageIdentifier};
use unic_locale::{ExtensionsMap, Locale};

const SIGMA: [&str; 25] = [
    "en", "zz", "und", "abc", "abcde", "Latn", "US", "001", "valencia", "1996", "abc1", "u", "t", "x", "a", "ca", "1a", "h0", "12", "foo", "bar", "true",
    "abcdefghi", "", "*",
];

struct Out {
    want: Option<(String, u64)>,
    section: String,
    chunk: u64,
    lines_in_chunk: u64,
    digest: u64,
}

impl Out {
    fn begin(&mut self, section: &str) {
        self.flush();
        self.section = section.to_string();
        self.chunk = 0;
    }
    fn line(&mut self, s: &str) {
        if let Some((sec, n)) = &self.want {
            if *sec == self.section && *n == self.chunk {
                println!("{}", s);
            }
        }
        for b in s.bytes().chain(std::iter::once(b'\n')) {
            self.digest ^= b as u64;
            self.digest = self.digest.wrapping_mul(0x100000001b3);
        }
        self.lines_in_chunk += 1;
        if self.lines_in_chunk == 1000 {
            self.flush();
        }
    }
    fn flush(&mut self) {
        if self.lines_in_chunk > 0 {
            if self.want.is_none() {
                println!("H {} {} {} {:016x}", self.section, self.chunk, self.lines_in_chunk, self.digest);
            }
            self.chunk += 1;
        }
        self.lines_in_chunk = 0;
        self.digest = 0xcbf29ce484222325;
    }
}

fn dir_name(d: CharacterDirection) -> &'static str {
    match d {
        CharacterDirection::LTR => "LTR",
        CharacterDirection::RTL => "RTL",
        CharacterDirection::TTB => "TTB",
    }
}

fn main() {
    let args: Vec<String> = std::env::args().collect();
    let want = if args.len() == 4 && args[1] == "--chunk" { Some((args[2].clone(), args[3].parse::<u64>().unwrap())) } else { None };
    let depth: u32 = std::env::var("C20_DEPTH").ok().and_then(|s| s.parse().ok()).unwrap_or(4);
    let mut o = Out { want, section: String::new(), chunk: 0, lines_in_chunk: 0, digest: 0xcbf29ce484222325 };
    let mut ids: BTreeSet<LanguageIdentifier> = BTreeSet::new();
    let mut locs: BTreeSet<Locale> = BTreeSet::new();

    // ---- parsing, serialising, canonicalising: every token sequence up to `depth`
    o.begin("parse");
    let a = SIGMA.len() as u64;
    let mut buf = String::new();
    let mut s = String::new();
    for d in 1..=depth {
        let total = a.pow(d);
        for idx in 0..total {
            buf.clear();
            let sepbits = idx.wrapping_mul(0x9E37_79B9_7F4A_7C15) >> 40;
            let mut div = a.pow(d - 1);
            let mut rem = idx;
            for j in 0..d {
                let t = (rem / div) as usize;
                rem %= div;
                if div > 1 {
                    div /= a;
                }
                if j > 0 {
                    buf.push(if (sepbits >> j) & 1 == 1 { '_' } else { '-' });
                }
                buf.push_str(SIGMA[t]);
            }
            s.clear();
            let _ = write!(s, "{} ", buf);
            match LanguageIdentifier::from_bytes(buf.as_bytes()) {
                Ok(li) => {
                    let _ = write!(s, "LI=Ok({:?}|{}) ", li, li);
                    ids.insert(li);
                }
                Err(e) => {
                    let _ = write!(s, "LI=Err({:?}|{}) ", e, e);
                }
            }
            match Locale::from_bytes(buf.as_bytes()) {
                Ok(l) => {
                    let _ = write!(s, "LOC=Ok({:?}|{}) ", l, l);
                    if d <= 3 {
                        locs.insert(l);
                    }
                }
                Err(e) => {
                    let _ = write!(s, "LOC=Err({:?}|{}) ", e, e);
                }
            }
            let _ = write!(s, "C1={:?} C2={:?}", unic_langid::canonicalize(&buf), unic_locale::canonicalize(&buf));
            if d <= 2 {
                let _ = write!(s, " L={:?} S={:?} R={:?} V={:?} E={:?}", buf.parse::<Language>(), buf.parse::<Script>(), buf.parse::<Region>(), buf.parse::<Variant>(), buf.parse::<ExtensionsMap>().map(|e| e.to_string()));
            }
            o.line(&s);
        }
    }

    // ---- the same for an input list written by the checker (one hex-encoded input per line):
    // real-world vocabulary in every position, order hazards, one identifier of every length,
    // multi-byte text, every likelySubtags key/value and layout locale
    o.begin("corpus");
    if let Ok(path) = std::env::var("C20_CORPUS") {
        if let Ok(txt) = std::fs::read_to_string(&path) {
            for h in txt.lines() {
                let bytes: Vec<u8> = (0..h.len() / 2).filter_map(|i| u8::from_str_radix(&h[2 * i..2 * i + 2], 16).ok()).collect();
                s.clear();
                let _ = write!(s, "{} ", h);
                match LanguageIdentifier::from_bytes(&bytes) {
                    Ok(li) => {
                        let _ = write!(s, "LI=Ok({:?}|{}) ", li, li);
                    }
                    Err(e) => {
                        let _ = write!(s, "LI=Err({:?}) ", e);
                    }
                }
                match Locale::from_bytes(&bytes) {
                    Ok(l) => {
                        let _ = write!(s, "LOC=Ok({:?}|{}) ", l, l);
                    }
                    Err(e) => {
                        let _ = write!(s, "LOC=Err({:?}) ", e);
                    }
                }
                let _ = write!(s, "C1={:?} C2={:?}", unic_langid::canonicalize(&bytes), unic_locale::canonicalize(&bytes));
                if let Ok(t) = std::str::from_utf8(&bytes) {
                    let _ = write!(s, " P1={:?} P2={:?}", t.parse::<LanguageIdentifier>().map(|x| x.to_string()), t.parse::<Locale>().map(|x| x.to_string()));
                }
                o.line(&s);
            }
        }
    }

    // ---- comparing: the sorted order of every accepted value, equality with &str
    o.begin("order");
    for li in &ids {
        let t = li.to_string();
        o.line(&format!("{} eq_str={} eq_upper={}", t, *li == t.as_str(), *li == t.to_ascii_uppercase().as_str()));
    }
    for l in &locs {
        o.line(&l.to_string());
    }

    // ---- matching: every ordered pair of a 384-identifier domain x 4 flag pairs
    o.begin("matches");
    let mut dom: Vec<LanguageIdentifier> = vec![];
    for l in ["und", "en", "fr", "zh"] {
        for sc in ["", "-Latn", "-Cyrl", "-Hant"] {
            for r in ["", "-US", "-001", "-FR"] {
                for v in ["", "-valencia", "-1996", "-1996-valencia", "-fonipa", "-fonipa-valencia"] {
                    dom.push(format!("{}{}{}{}", l, sc, r, v).parse().expect("domain id"));
                }
            }
        }
    }
    for x in &dom {
        s.clear();
        let _ = write!(s, "{} ", x);
        for y in &dom {
            let mut bits = 0u8;
            for (k, (ra, rb)) in [(false, false), (true, false), (false, true), (true, true)].iter().enumerate() {
                if x.matches(y, *ra, *rb) {
                    bits |= 1 << k;
                }
            }
            s.push((b'a' + bits) as char);
        }
        o.line(&s);
    }
    let wrap = |li: &LanguageIdentifier, ext: &str| -> Locale { format!("{}{}", li, ext).parse().expect("domain locale") };
    for x in dom.iter().step_by(7) {
        for ex in ["", "-u-ca-buddhist", "-x-priv"] {
            let lx = wrap(x, ex);
            s.clear();
            let _ = write!(s, "{} ", lx);
            for y in dom.iter().step_by(5) {
                for ey in ["", "-t-de-h0-hybrid", "-x-priv"] {
                    let ly = wrap(y, ey);
                    let mut bits = 0u8;
                    for (k, (ra, rb)) in [(false, false), (true, false), (false, true), (true, true)].iter().enumerate() {
                        if lx.matches(&ly, *ra, *rb) {
                            bits |= 1 << k;
                        }
                    }
                    s.push((b'a' + bits) as char);
                }
            }
            o.line(&s);
        }
    }

    // ---- mutating: every sequence of up to three mutator calls from default()
    o.begin("histories");
    type Op = (&'static str, fn(&mut Locale) -> String);
    let ops: Vec<Op> = vec![
        ("lang=en", |l| { l.id.language = "en".parse().unwrap(); String::new() }),
        ("lang.clear", |l| { l.id.language.clear(); String::new() }),
        ("script=Arab", |l| { l.id.script = Some("Arab".parse().unwrap()); String::new() }),
        ("region=US", |l| { l.id.region = Some("US".parse().unwrap()); String::new() }),
        ("set_variants(valencia,1996,valencia)", |l| { l.id.set_variants(&["valencia".parse().unwrap(), "1996".parse().unwrap(), "valencia".parse().unwrap()]); String::new() }),
        ("set_variants()", |l| { l.id.set_variants(&[]); String::new() }),
        ("clear_variants", |l| { l.id.clear_variants(); String::new() }),
        ("set_attribute(ZZZ)", |l| format!("{:?}", l.extensions.unicode.set_attribute("ZZZ"))),
        ("set_attribute(abc)", |l| format!("{:?}", l.extensions.unicode.set_attribute("abc"))),
        ("set_attribute(ab)", |l| format!("{:?}", l.extensions.unicode.set_attribute("ab"))),
        ("remove_attribute(abc)", |l| format!("{:?}", l.extensions.unicode.remove_attribute("abc"))),
        ("set_keyword(ca,[buddhist,true])", |l| format!("{:?}", l.extensions.unicode.set_keyword("ca", &["buddhist", "true"]))),
        ("set_keyword(1a,[x])", |l| format!("{:?}", l.extensions.unicode.set_keyword("1a", &["x"]))),
        ("remove_keyword(CA)", |l| format!("{:?}", l.extensions.unicode.remove_keyword("CA"))),
        ("set_tlang(de-Latn)", |l| format!("{:?}", l.extensions.transform.set_tlang("de-Latn".parse().unwrap()))),
        ("clear_tlang", |l| { l.extensions.transform.clear_tlang(); String::new() }),
        ("set_tfield(h0,[hybrid])", |l| format!("{:?}", l.extensions.transform.set_tfield("h0", &["hybrid"]))),
        ("set_tfield(ca,[foo])", |l| format!("{:?}", l.extensions.transform.set_tfield("ca", &["foo"]))),
        ("remove_tfield(H0)", |l| format!("{:?}", l.extensions.transform.remove_tfield("H0"))),
        ("add_tag(zz)", |l| format!("{:?}", l.extensions.private.add_tag("zz"))),
        ("add_tag(A)", |l| format!("{:?}", l.extensions.private.add_tag("A"))),
        ("add_tag()", |l| format!("{:?}", l.extensions.private.add_tag(""))),
        ("remove_tag(zz)", |l| format!("{:?}", l.extensions.private.remove_tag("zz"))),
        ("clear_tags", |l| { l.extensions.private.clear_tags(); String::new() }),
    ];
    let n = ops.len();
    let mut hist_vals: BTreeSet<Locale> = BTreeSet::new();
    for len in 1..=3u32 {
        for idx in 0..(n as u64).pow(len) {
            let mut loc = Locale::default();
            s.clear();
            let mut rem = idx;
            for _ in 0..len {
                let (name, f) = &ops[(rem % n as u64) as usize];
                rem /= n as u64;
                let r = f(&mut loc);
                let _ = write!(s, "{}->{} ", name, r);
            }
            let txt = loc.to_string();
            let back = txt.parse::<Locale>().map(|p| p == loc);
            let _ = write!(s, "=> {} {:?} reparse={:?} attrs={:?} kw={:?} tags={:?}", txt, loc, back,
                loc.extensions.unicode.attributes().collect::<Vec<_>>(), loc.extensions.unicode.keyword("ca").map(|i| i.collect::<Vec<_>>()), loc.extensions.private.tags().collect::<Vec<_>>());
            o.line(&s);
            if len <= 2 {
                hist_vals.insert(loc);
            }
        }
    }
    o.flush();

    // ---- the character_direction column (always printed in full)
    if o.want.is_none() {
        for li in &ids {
            println!("D {} {}", li, dir_name(li.character_direction()));
        }
        for l in ["ar", "ar-Latn", "he", "fa", "ur", "az", "az-Arab", "az-IR", "uz-AF", "pa-PK", "ks", "und-Arab", "und-Mong", "mn-Mong", "ms", "ha-NG", "ff-Adlm", "ckb", "ps", "sd", "ug", "yi", "en", "und"] {
            let li: LanguageIdentifier = l.parse().expect("direction id");
            println!("D {} {}", li, dir_name(li.character_direction()));
            let loc: Locale = format!("{}-u-ca-buddhist", l).parse().expect("direction locale");
            println!("D {} {}", loc, dir_name(loc.id.character_direction()));
        }
        for l in &hist_vals {
            println!("D {} {}", l, dir_name(l.id.character_direction()));
        }
        // every key of the bundled likelySubtags data and every CLDR layout locale (the list is
        // written by the checker from the data files; one identifier per line)
        if let Ok(path) = std::env::var("C20_DIR_IDS") {
            if let Ok(txt) = std::fs::read_to_string(&path) {
                let mut by_lang: std::collections::BTreeMap<String, Vec<LanguageIdentifier>> = Default::default();
                for l in txt.lines() {
                    if let Ok(li) = l.parse::<LanguageIdentifier>() {
                        println!("D {} {}", li, dir_name(li.character_direction()));
                        by_lang.entry(li.language.as_str().to_string()).or_default().push(li);
                    }
                }
                // two-call histories on one thread: for every ordered pair (x, y) of listed
                // identifiers of one language, the direction of y asked right after that of x
                // (a memo keyed on less than the whole identifier answers y with x's verdict)
                for (_, group) in &by_lang {
                    if group.len() < 2 || group.len() > 40 {
                        continue;
                    }
                    for x in group {
                        for y in group {
                            let _ = x.character_direction();
                            println!("D {}>{} {}", x, y, dir_name(y.character_direction()));
                        }
                    }
                }
            }
        }
        println!("DONE");
    }
}

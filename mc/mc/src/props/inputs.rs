//! Properties decided on the input spaces E1/E2: C01(a), C02, C03, C04/C05 (parse route), C13.
//! One `check_*` function per property; each is a pure function of the input bytes and is also
//! what `--replay` re-executes.

use crate::engine::*;
use crate::obs::*;
use crate::spaces::*;
use refmodel::{self as rm, LangIdVerdict, Zone};
use serde_json::json;
use std::str::FromStr;
use unic_langid_impl::subtags::{Language, Region, Script, Variant};
use unic_langid_impl::LanguageIdentifier;
use unic_locale_impl::{ExtensionsMap, Locale};

pub type Checker = dyn Fn(&[u8], &mut Local, &Collector) + Sync;

fn viol(
    coll: &Collector,
    l: &Local,
    sub: &'static str,
    class: String,
    input: &[u8],
    expected: String,
    observed: String,
) {
    coll.push(
        l.order,
        Violation {
            sub,
            class,
            case: Case::Input(input.to_vec()),
            expected,
            observed,
        },
    );
}

pub fn parse_langid(b: &[u8]) -> Out<LanguageIdentifier> {
    guard(|| LanguageIdentifier::from_bytes(b))
}
pub fn parse_locale(b: &[u8]) -> Out<Locale> {
    guard(|| Locale::from_bytes(b))
}

fn shape(b: &[u8]) -> String {
    // coarse shape of an input for violation classes: token count capped
    let n = b.split(|c| *c == b'-' || *c == b'_').count();
    format!("{}tok", n.min(9))
}

// ------------------------------------------------------------------------------------------
// C02
// ------------------------------------------------------------------------------------------

pub fn check_c02(b: &[u8], l: &mut Local, coll: &Collector) {
    let oracle = rm::langid_oracle(b);
    let out = parse_langid(b);
    l.outcomes[out.kind()] += 1;
    let zi = match &oracle {
        LangIdVerdict::Accept(_) => 0,
        LangIdVerdict::InvalidLanguage => 3,
        LangIdVerdict::InvalidSubtag => 4,
    };
    l.zones[zi] += 1; // (re-used as: accept / - / - / invalid-language / invalid-subtag)
    if !matches!(oracle, LangIdVerdict::InvalidLanguage) {
        l.nontrivial += 1;
    }
    l.sample((zi * 3 + out.kind()) as u32, b, || {
        format!("oracle={:?} observed={}", short_verdict(&oracle), out.brief(|x| x.to_string()))
    });
    match (&oracle, &out) {
        (LangIdVerdict::Accept(m), Out::Ok(li)) => {
            let o = obs_langid(li);
            let e = exp_langid(m);
            if let Some(f) = diff_langid(&o, &e) {
                viol(coll, l, "c02.value", format!("field {}", f), b, show_olangid(&e), show_olangid(&o));
            }
            let s = li.to_string();
            if s != m.canon() {
                viol(coll, l, "c02.to_string", "to_string differs from model".into(), b, m.canon(), s);
            }
            if li.language.is_empty() != m.lang.is_none() {
                viol(coll, l, "c02.value", "is_empty(language)".into(), b, format!("{}", m.lang.is_none()), format!("{}", li.language.is_empty()));
            }
        }
        (LangIdVerdict::Accept(m), o) => viol(
            coll, l, "c02.accept",
            format!("well-formed input rejected: {}", kind_name(o)),
            b, format!("Ok({})", m.canon()), o.brief(|x| x.to_string()),
        ),
        (v, Out::Ok(li)) => viol(
            coll, l, "c02.reject",
            format!("ill-formed input accepted ({:?}) {}", short_verdict(v), shape(b)),
            b, format!("Err({:?})", short_verdict(v)), format!("Ok({})", li),
        ),
        (v, Out::Err(e)) => {
            let want = match v {
                LangIdVerdict::InvalidLanguage => "ParserError(InvalidLanguage)",
                _ => "ParserError(InvalidSubtag)",
            };
            if e != want {
                viol(coll, l, "c02.error_kind", format!("want {} got {}", want, e), b, want.into(), e.clone());
            }
        }
        (v, Out::Panic(p)) => viol(
            coll, l, "c02.panic", format!("panic {}", p), b,
            format!("Err({:?})", short_verdict(v)), format!("PANIC({})", p),
        ),
    }
    // the other entry points agree with from_bytes
    if let Ok(s) = std::str::from_utf8(b) {
        let o2 = guard(|| LanguageIdentifier::from_str(s));
        if o2 != out {
            viol(coll, l, "c02.fromstr", "FromStr differs from from_bytes".into(), b,
                 out.brief(|x| x.to_string()), o2.brief(|x| x.to_string()));
        }
    }
    let o3 = guard(|| unic_langid_impl::canonicalize(b));
    let want3 = match &out {
        Out::Ok(li) => Out::Ok(li.to_string()),
        Out::Err(e) => Out::Err(e.clone()),
        Out::Panic(p) => Out::Panic(p.clone()),
    };
    if o3 != want3 && !out.is_panic() {
        viol(coll, l, "c02.canonicalize", "canonicalize differs from from_bytes+to_string".into(), b,
             want3.brief(|x| x.clone()), o3.brief(|x| x.clone()));
    }
    let o4 = guard(|| unic_langid_impl::parser::parse_language_identifier(b));
    if o4.kind() != out.kind() || (o4.ok().is_some() && o4.ok() != out.ok()) {
        viol(coll, l, "c02.parser_fn", "parser::parse_language_identifier differs from from_bytes".into(), b,
             out.brief(|x| x.to_string()), o4.brief(|x| x.to_string()));
    }
}

fn short_verdict(v: &LangIdVerdict) -> &'static str {
    match v {
        LangIdVerdict::Accept(_) => "Accept",
        LangIdVerdict::InvalidLanguage => "InvalidLanguage",
        LangIdVerdict::InvalidSubtag => "InvalidSubtag",
    }
}
fn kind_name<T>(o: &Out<T>) -> &'static str {
    OUTCOME_NAMES[o.kind()]
}

// ------------------------------------------------------------------------------------------
// C03
// ------------------------------------------------------------------------------------------

pub fn check_c03(b: &[u8], l: &mut Local, coll: &Collector) {
    let (zone, cov) = rm::locale_zone(b);
    let out = parse_locale(b);
    l.zones[zone.index()] += 1;
    l.outcomes[out.kind()] += 1;
    l.cov |= cov;
    if !matches!(zone, Zone::MustReject) || rm::is_lang(rm::split_tokens(b)[0]) {
        l.nontrivial += 1;
    }
    l.sample((zone.index() * 3 + out.kind()) as u32, b, || {
        format!("zone={} observed={}", zone.name(), out.brief(|x| x.to_string()))
    });
    c03_compare(b, &zone, &out, l, coll, "c03");
    // the other entry points that parse a locale agree with from_bytes
    // (value equality and, for accepted inputs, the same representation: Debug text)
    let dbg_out = out.ok().map(|x| format!("{:?}", x));
    let same = |a: &Out<Locale>, c: &Out<Locale>| a.kind() == c.kind() && (a.ok().is_none() || (a.ok() == c.ok() && dbg_out == c.ok().map(|x| format!("{:?}", x))));
    let o2 = guard(|| unic_locale_impl::parser::parse_locale(b));
    if !same(&out, &o2) {
        viol(coll, l, "c03.entry_points", "parser::parse_locale differs from Locale::from_bytes".into(), b, out.brief(|x| x.to_string()), o2.brief(|x| x.to_string()));
    }
    if let Ok(s) = std::str::from_utf8(b) {
        let o3 = guard(|| Locale::from_str(s));
        if !same(&out, &o3) {
            viol(coll, l, "c03.entry_points", "Locale::from_str differs from Locale::from_bytes".into(), b, out.brief(|x| x.to_string()), o3.brief(|x| x.to_string()));
        }
        // (`str::parse::<Locale>` is std's one-line wrapper around `FromStr::from_str`: the
        // same code, not a separate entry point of the library)
    }
    // the extension part alone: ExtensionsMap::from_bytes on the text after the language id
    if let (Zone::MustAccept(v), Out::Ok(loc)) = (&zone, &out) {
        let tokens = rm::split_tokens(b);
        if let Ok((_, n)) = rm::langid_prefix(&tokens, 0) {
            let mut off = 0usize;
            for t in tokens.iter().take(n) {
                off += t.len() + 1;
            }
            if off <= b.len() {
                let tail = &b[off.min(b.len())..];
                match guard(|| ExtensionsMap::from_bytes(tail)) {
                    Out::Ok(em) if em == loc.extensions && em.to_string() == v.canon_ext() => {}
                    o => viol(coll, l, "c03.entry_points", "ExtensionsMap::from_bytes on the extension part differs from the locale's extensions".into(), b,
                              v.canon_ext(), o.brief(|x| x.to_string())),
                }
            }
        }
    }
}

fn c03_compare(b: &[u8], zone: &Zone, out: &Out<Locale>, l: &Local, coll: &Collector, _p: &str) {
    match (zone, out) {
        (Zone::OutOfScope, _) => {}
        (_, Out::Panic(p)) => viol(
            coll, l, "c03.panic", format!("panic in zone {}: {}", zone.name(), p), b,
            "Ok or Err".into(), format!("PANIC({})", p),
        ),
        (Zone::MustAccept(v), Out::Err(e)) => viol(
            coll, l, "c03.must_accept", format!("well-formed locale rejected: {}", e), b,
            format!("Ok({})", v.canon()), format!("Err({})", e),
        ),
        (Zone::MustAccept(v), Out::Ok(loc)) | (Zone::Either(v), Out::Ok(loc)) => {
            let o = obs_locale(loc);
            let e = exp_locale(v);
            if let Some(f) = diff_locale(&o, &e) {
                viol(coll, l, "c03.value", format!("zone {} field {}", zone.name(), f), b,
                     show_olocale(&e), show_olocale(&o));
            }
            let s = loc.to_string();
            if s != v.canon() {
                viol(coll, l, "c03.to_string", format!("zone {}: to_string differs from the model's canonical string", zone.name()), b, v.canon(), s);
            }
        }
        (Zone::EitherUnchecked(v), Out::Ok(loc)) => {
            let o = obs_langid(&loc.id);
            let e = exp_langid(&v.id);
            if let Some(f) = diff_langid(&o, &e) {
                viol(coll, l, "c03.value", format!("zone either_unchecked field {}", f), b,
                     show_olangid(&e), show_olangid(&o));
            }
        }
        (Zone::MustReject, Out::Ok(loc)) => viol(
            coll, l, "c03.must_reject",
            format!("ill-formed locale accepted, {}", reject_reason(b)), b,
            "Err(_)".into(), format!("Ok({})", loc),
        ),
        (_, Out::Err(_)) => {}
    }
}

/// Which clause of C03 makes the input a must-reject (for the violation class only).
fn reject_reason(b: &[u8]) -> &'static str {
    let tokens = rm::split_tokens(b);
    let Ok((_, mut i)) = rm::langid_prefix(&tokens, 0) else {
        return "bad language";
    };
    let mut seen = std::collections::BTreeSet::new();
    while i < tokens.len() {
        let t = tokens[i];
        if t.is_empty() {
            i += 1;
            continue;
        }
        if t.len() == 1 && rm::is_alnum(t[0]) {
            let c = t[0].to_ascii_lowercase();
            if !seen.insert(c) {
                return "repeated singleton";
            }
            i += 1;
            match c {
                b'x' => return "malformed private-use subtag",
                b'u' => {
                    while i < tokens.len() && (rm::is_attr(tokens[i]) || rm::is_ukey(tokens[i])) {
                        i += 1;
                    }
                }
                b't' => {
                    if i < tokens.len() && rm::is_lang(tokens[i]) {
                        i = rm::langid_prefix(&tokens, i).map(|x| x.1).unwrap_or(i + 1);
                        if i < tokens.len() && rm::is_lang(tokens[i]) && !rm::is_tkey(tokens[i]) {
                            return "second tlang / misplaced subtag after tlang";
                        }
                    }
                    while i < tokens.len() && (rm::is_attr(tokens[i]) || rm::is_tkey(tokens[i])) {
                        i += 1;
                    }
                }
                _ => {
                    while i < tokens.len() && rm::is_othersub(tokens[i]) {
                        i += 1;
                    }
                }
            }
        } else if t.len() > 1 && rm::all_alnum(t) {
            return "multi-character subtag where a singleton is required (misplaced/over-long/multi-char singleton)";
        } else {
            return "malformed subtag (non-alphanumeric byte)";
        }
    }
    "other"
}

// ------------------------------------------------------------------------------------------
// C13
// ------------------------------------------------------------------------------------------

pub fn check_c13(b: &[u8], l: &mut Local, coll: &Collector) {
    let li = parse_langid(b);
    let loc = parse_locale(b);
    l.outcomes[loc.kind()] += 1;
    let (zone, cov) = rm::locale_zone(b);
    l.zones[zone.index()] += 1;
    l.cov |= cov;
    if li.is_ok() || loc.is_ok() {
        l.nontrivial += 1;
    }
    l.sample((li.kind() * 3 + loc.kind()) as u32, b, || {
        format!("langid={} locale={}", li.brief(|x| x.to_string()), loc.brief(|x| x.to_string()))
    });
    if let Out::Ok(li) = &li {
        l.counters[0] += 1;
        match &loc {
            Out::Ok(loc) => {
                if loc.id != *li {
                    viol(coll, l, "c13.superset", "Locale.id differs from the LanguageIdentifier".into(), b,
                         format!("{:?}", li), format!("{:?}", loc.id));
                }
                if !loc.extensions.is_empty() || loc.extensions != ExtensionsMap::default() {
                    viol(coll, l, "c13.superset", "Locale has extensions for a plain language identifier".into(), b,
                         "no extensions".into(), format!("{:?}", loc.extensions));
                }
                if loc.to_string() != li.to_string() {
                    viol(coll, l, "c13.superset", "to_string differs".into(), b, li.to_string(), loc.to_string());
                }
            }
            o => viol(coll, l, "c13.superset", format!("LanguageIdentifier accepts, Locale: {}", kind_name(o)), b,
                      format!("Ok({})", li), o.brief(|x| x.to_string())),
        }
        // LanguageIdentifier -> Locale -> LanguageIdentifier is the identity
        let back: LanguageIdentifier = Locale::from(li.clone()).into();
        if back != *li {
            viol(coll, l, "c13.conv", "LanguageIdentifier->Locale->LanguageIdentifier not identity".into(), b,
                 format!("{:?}", li), format!("{:?}", back));
        }
        // the same identifier assembled from its parts with the raw constructor (variants
        // sorted and unique, as its contract asks; an empty list as `Some([])`, a representation
        // the parser never produces): the conversions move the value, they do not rebuild it
        {
            let (lang, script, region, vars) = li.clone().into_parts();
            let raw = LanguageIdentifier::from_raw_parts_unchecked(lang, script, region, Some(vars.into_boxed_slice()));
            let back: LanguageIdentifier = Locale::from(raw.clone()).into();
            if back != raw || format!("{:?}", back) != format!("{:?}", raw) {
                viol(coll, l, "c13.conv", "LanguageIdentifier->Locale->LanguageIdentifier not identity (identifier built with from_raw_parts_unchecked from canonical parts)".into(), b,
                     format!("{:?}", raw), format!("{:?}", back));
            }
        }
        let as_loc = Locale::from(li.clone());
        if !as_loc.extensions.is_empty() || as_loc.id != *li {
            viol(coll, l, "c13.conv", "Locale::from(li) is not (li, no extensions)".into(), b,
                 li.to_string(), as_loc.to_string());
        }
    }
    if let Out::Ok(loc) = &loc {
        // clause 2: for a well-formed locale string, id = LanguageIdentifier of the part before
        // the first singleton
        if let Zone::MustAccept(_) = &zone {
            l.counters[1] += 1;
            let tokens = rm::split_tokens(b);
            let cut = tokens.iter().position(|t| t.len() == 1).unwrap_or(tokens.len());
            let mut prefix: Vec<u8> = vec![];
            for (i, t) in tokens[..cut].iter().enumerate() {
                if i > 0 {
                    prefix.push(b'-');
                }
                prefix.extend_from_slice(t);
            }
            match parse_langid(&prefix) {
                Out::Ok(pl) => {
                    if pl != loc.id {
                        viol(coll, l, "c13.prefix", "id differs from LanguageIdentifier(prefix before first singleton)".into(), b,
                             format!("{:?}", pl), format!("{:?}", loc.id));
                    }
                }
                o => viol(coll, l, "c13.prefix", "prefix before first singleton does not parse as LanguageIdentifier".into(), b,
                          format!("Ok({})", loc.id), o.brief(|x| x.to_string())),
            }
        }
        // Locale -> LanguageIdentifier drops exactly the extensions
        let id: LanguageIdentifier = loc.clone().into();
        if id != loc.id {
            viol(coll, l, "c13.conv", "LanguageIdentifier::from(loc) != loc.id".into(), b,
                 format!("{:?}", loc.id), format!("{:?}", id));
        }
        let r: &LanguageIdentifier = loc.as_ref();
        if *r != loc.id {
            viol(coll, l, "c13.conv", "AsRef<LanguageIdentifier> != loc.id".into(), b, format!("{:?}", loc.id), format!("{:?}", r));
        }
        let again = Locale::from(id.clone());
        let mut stripped = loc.clone();
        stripped.extensions = ExtensionsMap::default();
        if again != stripped || again.to_string() != loc.id.to_string() {
            viol(coll, l, "c13.conv", "Locale::from(LanguageIdentifier::from(loc)) is not loc without extensions".into(), b,
                 stripped.to_string(), again.to_string());
        }
    }
}

// ------------------------------------------------------------------------------------------
// C04 (parse route)
// ------------------------------------------------------------------------------------------

pub fn check_c04(b: &[u8], l: &mut Local, coll: &Collector) {
    let loc = parse_locale(b);
    l.outcomes[loc.kind()] += 1;
    let (zone, cov) = rm::locale_zone(b);
    l.zones[zone.index()] += 1;
    l.cov |= cov;
    if let Out::Ok(loc) = &loc {
        l.nontrivial += 1;
        let s = loc.to_string();
        l.sample(zone.index() as u32, b, || format!("zone={} to_string={}", zone.name(), s));
        match &zone {
            Zone::MustAccept(v) | Zone::Either(v) => {
                if s != v.canon() {
                    viol(coll, l, "c04.canon", format!("to_string is not the canonical form (zone {})", zone.name()), b, v.canon(), s.clone());
                }
            }
            _ => {}
        }
        if matches!(&zone, Zone::EitherUnchecked(_)) || !loc.extensions.other.is_empty() {
            // a supported `other` extension (also on an input that is outside C03 for another
            // reason, e.g. a repeated keyword key): only charset + fixed point are demanded
            if s.bytes().any(|c| !(rm::is_alnum(c) || c == b'-')) {
                viol(coll, l, "c04.wellformed", "output has a byte outside [A-Za-z0-9-]".into(), b, "[A-Za-z0-9-]*".into(), s.clone());
            }
            if let Out::Ok(s2) = guard(|| unic_locale_impl::canonicalize(&s)) {
                if s2 != s {
                    viol(coll, l, "c04.wellformed", "output is not a fixed point of canonicalize".into(), b, s.clone(), s2);
                }
            }
        } else if let Err(why) = rm::check_canonical_locale_string(&s) {
            viol(coll, l, "c04.wellformed", format!("output not well-formed/canonical: {}", strip_quotes(&why)), b,
                 "a well-formed canonical identifier".into(), format!("{} ({})", s, why));
        }
        let c = guard(|| unic_locale_impl::canonicalize(b));
        match &c {
            Out::Ok(cs) if *cs == s => {}
            o => viol(coll, l, "c04.canonicalize", "canonicalize(s) differs from parse(s).to_string()".into(), b, s.clone(), o.brief(|x| x.clone())),
        }
        if s.len() > b.len() {
            viol(coll, l, "c04.length", "canonical output longer than the input".into(), b, format!("<= {} bytes", b.len()), format!("{} bytes: {}", s.len(), s));
        }
    } else {
        let c = guard(|| unic_locale_impl::canonicalize(b));
        if c.is_ok() {
            viol(coll, l, "c04.canonicalize", "canonicalize succeeds where parsing fails".into(), b, "Err".into(), c.brief(|x| x.clone()));
        }
    }
    // language identifiers
    if let Out::Ok(li) = parse_langid(b) {
        l.counters[0] += 1;
        let s = li.to_string();
        if let Err(why) = rm::check_canonical_langid_string(&s) {
            viol(coll, l, "c04.langid_wellformed", format!("langid output not well-formed/canonical: {}", strip_quotes(&why)), b,
                 "a well-formed canonical language identifier".into(), format!("{} ({})", s, why));
        }
        if let LangIdVerdict::Accept(m) = rm::langid_oracle(b) {
            if s != m.canon() {
                viol(coll, l, "c04.langid_canon", "langid to_string is not the canonical form".into(), b, m.canon(), s.clone());
            }
        }
        match guard(|| unic_langid_impl::canonicalize(b)) {
            Out::Ok(cs) if cs == s => {}
            o => viol(coll, l, "c04.canonicalize", "langid canonicalize(s) differs from parse(s).to_string()".into(), b, s.clone(), o.brief(|x| x.clone())),
        }
        if s.len() > b.len() {
            viol(coll, l, "c04.length", "canonical langid output longer than the input".into(), b, format!("<= {}", b.len()), s);
        }
    }
}

fn strip_quotes(s: &str) -> String {
    // keep violation classes coarse: drop the quoted concrete strings
    match s.find('"') {
        Some(p) => s[..p].trim_end().to_string(),
        None => s.to_string(),
    }
}

// ------------------------------------------------------------------------------------------
// C05 (parse route)
// ------------------------------------------------------------------------------------------

pub fn check_c05(b: &[u8], l: &mut Local, coll: &Collector) {
    let loc = parse_locale(b);
    l.outcomes[loc.kind()] += 1;
    if let Out::Ok(loc) = &loc {
        l.nontrivial += 1;
        let s = loc.to_string();
        let ext_kind = (!loc.extensions.unicode.is_empty()) as u32
            + 2 * (!loc.extensions.transform.is_empty()) as u32
            + 4 * (!loc.extensions.private.is_empty()) as u32;
        l.sample(ext_kind, b, || format!("to_string={}", s));
        l.counters[ext_kind as usize] += 1;
        match parse_locale(s.as_bytes()) {
            Out::Ok(l2) if l2 == *loc => {}
            Out::Ok(l2) => viol(coll, l, "c05.locale", "re-parsed locale differs".into(), b, format!("{:?}", loc), format!("{:?} (from {})", l2, s)),
            o => viol(coll, l, "c05.locale", format!("own output does not re-parse (extensions u/t/x mask {})", ext_kind), b,
                      format!("Ok({})", s), format!("{} for {}", o.brief(|x| x.to_string()), s)),
        }
        // ExtensionsMap round trip
        let es = loc.extensions.to_string();
        match guard(|| ExtensionsMap::from_str(&es)) {
            Out::Ok(e2) if e2 == loc.extensions => {}
            o => viol(coll, l, "c05.extensions", format!("ExtensionsMap output does not re-parse to an equal map (mask {})", ext_kind), b,
                      format!("Ok({})", es), format!("{} for {:?}", o.brief(|x| x.to_string()), es)),
        }
        // canonicalize idempotent
        if let Out::Ok(c1) = guard(|| unic_locale_impl::canonicalize(b)) {
            match guard(|| unic_locale_impl::canonicalize(&c1)) {
                Out::Ok(c2) if c2 == c1 => {}
                o => viol(coll, l, "c05.idempotent", "canonicalize(canonicalize(s)) != canonicalize(s)".into(), b, c1.clone(), o.brief(|x| x.clone())),
            }
        }
    }
    if let Out::Ok(li) = parse_langid(b) {
        l.counters[8] += 1;
        let s = li.to_string();
        match parse_langid(s.as_bytes()) {
            Out::Ok(l2) if l2 == li => {}
            o => viol(coll, l, "c05.langid", "language identifier output does not re-parse to an equal value".into(), b,
                      format!("Ok({:?})", li), format!("{} for {}", o.brief(|x| format!("{:?}", x)), s)),
        }
        if let Out::Ok(c1) = guard(|| unic_langid_impl::canonicalize(b)) {
            match guard(|| unic_langid_impl::canonicalize(&c1)) {
                Out::Ok(c2) if c2 == c1 => {}
                o => viol(coll, l, "c05.idempotent", "langid canonicalize not idempotent".into(), b, c1.clone(), o.brief(|x| x.clone())),
            }
        }
    }
}

// ------------------------------------------------------------------------------------------
// C01 (a): every text-accepting entry point on the same bytes
// ------------------------------------------------------------------------------------------

pub fn check_c01_input(b: &[u8], l: &mut Local, coll: &Collector) {
    let mut npanic = 0;
    let mut calls = 0u64;
    macro_rules! total {
        ($name:expr, $e:expr) => {{
            calls += 1;
            let r = guard(|| $e);
            if let Out::Panic(p) = &r {
                npanic += 1;
                viol(coll, l, "c01.panic", format!("{} panics: {}", $name, p), b, "Ok or Err".into(), format!("PANIC({})", p));
            }
            r.kind()
        }};
    }
    let k = total!("Locale::from_bytes", Locale::from_bytes(b));
    l.outcomes[k] += 1;
    total!("LanguageIdentifier::from_bytes", LanguageIdentifier::from_bytes(b));
    total!("parse_language_identifier", unic_langid_impl::parser::parse_language_identifier(b));
    total!("langid canonicalize", unic_langid_impl::canonicalize(b));
    total!("locale canonicalize", unic_locale_impl::canonicalize(b));
    total!("parse_locale", unic_locale_impl::parser::parse_locale(b));
    total!("ExtensionsMap::from_bytes", ExtensionsMap::from_bytes(b));
    for allow in [false, true] {
        total!("LanguageIdentifier::try_from_iter", {
            let mut it = b.split(|c| *c == b'-' || *c == b'_').peekable();
            LanguageIdentifier::try_from_iter(&mut it, allow)
        });
    }
    total!("Language::from_bytes", Language::from_bytes(b));
    total!("Script::from_bytes", Script::from_bytes(b));
    total!("Region::from_bytes", Region::from_bytes(b));
    total!("Variant::from_bytes", Variant::from_bytes(b));
    total!("Language::try_from(Some)", <Language as std::convert::TryFrom<Option<&[u8]>>>::try_from(Some(b)));
    if let Ok(s) = std::str::from_utf8(b) {
        total!("Locale::from_str", Locale::from_str(s));
        total!("LanguageIdentifier::from_str", LanguageIdentifier::from_str(s));
        total!("ExtensionsMap::from_str", ExtensionsMap::from_str(s));
        total!("Language::from_str", Language::from_str(s));
        total!("Script::from_str", Script::from_str(s));
        total!("Region::from_str", Region::from_str(s));
        total!("Variant::from_str", Variant::from_str(s));
        // serde's Deserialize accepts text too (feature `serde`): directly as a string of serde's
        // data model, and through a JSON document
        #[cfg(feature = "serde")]
        {
            use serde::de::value::{Error as VErr, StrDeserializer, StringDeserializer};
            use serde::Deserialize;
            total!("LanguageIdentifier::deserialize(str)", LanguageIdentifier::deserialize(StrDeserializer::<VErr>::new(s)));
            total!("LanguageIdentifier::deserialize(String)", LanguageIdentifier::deserialize(StringDeserializer::<VErr>::new(s.to_string())));
            total!("serde_json::from_str::<LanguageIdentifier>", match serde_json::to_string(s) {
                Ok(doc) => serde_json::from_str::<LanguageIdentifier>(&doc).map_err(|_| ()),
                Err(_) => Err(()),
            });
        }
    }
    // the comparisons with text (`== &str`, `== str`) also accept arbitrary text: every accepted
    // identifier / subtag is compared with the probe texts built around its own canonical text
    // (prefixes, extensions, multi-byte characters at every byte offset)
    if let Out::Ok(li) = guard(|| LanguageIdentifier::from_bytes(b)) {
        #[cfg(feature = "serde")]
        {
            total!("serde_json::to_string(LanguageIdentifier)", serde_json::to_string(&li).map_err(|_| ()));
            total!("serde_json::to_value(LanguageIdentifier)", serde_json::to_value(&li).map_err(|_| ()));
        }
        if let Ok(c) = guard_total(|| li.to_string()) {
            for p in eq_probes(&c) {
                total!("LanguageIdentifier == &str", Ok::<bool, ()>(li == p.as_str()));
            }
            if li.script.is_none() && li.region.is_none() && li.variants().len() == 0 {
                let v = li.language;
                for p in eq_probes(v.as_str()) {
                    total!("Language == &str", Ok::<bool, ()>(v == p.as_str()));
                }
            }
        }
    }
    if let Out::Ok(v) = guard(|| Script::from_bytes(b)) {
        for p in eq_probes(v.as_str()) {
            total!("Script == &str", Ok::<bool, ()>(v == p.as_str()));
        }
    }
    if let Out::Ok(v) = guard(|| Region::from_bytes(b)) {
        for p in eq_probes(v.as_str()) {
            total!("Region == &str", Ok::<bool, ()>(v == p.as_str()));
        }
    }
    if let Out::Ok(v) = guard(|| Variant::from_bytes(b)) {
        for p in eq_probes(v.as_str()) {
            total!("Variant == &str", Ok::<bool, ()>(v == p.as_str()));
            total!("Variant == str", Ok::<bool, ()>(v == *p.as_str()));
        }
    }
    // the extension part alone (what Locale::from_parts / into_parts hand around)
    if let Some(p) = b.iter().position(|c| *c == b'-' || *c == b'_') {
        total!("ExtensionsMap::from_bytes(tail)", ExtensionsMap::from_bytes(&b[p..]));
        total!("ExtensionsMap::from_bytes(tail+1)", ExtensionsMap::from_bytes(&b[p + 1..]));
    }
    l.counters[0] += calls;
    if npanic == 0 {
        l.nontrivial += 1;
    }
    l.sample(k as u32, b, || format!("Locale::from_bytes -> {}", OUTCOME_NAMES[k]));
}

// ------------------------------------------------------------------------------------------
// driver
// ------------------------------------------------------------------------------------------

pub struct SweepPlan {
    pub e1_full_depth: u32,
    pub e1_core_depth: u32,
    pub e1_mini_depth: u32,
    pub skeleton_full: bool,
    pub rep3: bool,
    pub k1_full_skeletons: bool,
    pub k1_all_bytes: bool,
    pub k2: bool,
    pub langid_only: bool,
}

impl SweepPlan {
    pub fn standard(ctx: &Ctx) -> SweepPlan {
        if ctx.quick() {
            SweepPlan {
                e1_full_depth: 3,
                e1_core_depth: 5,
                e1_mini_depth: 6,
                skeleton_full: true,
                rep3: false,
                k1_full_skeletons: false,
                k1_all_bytes: false,
                k2: false,
                langid_only: false,
            }
        } else {
            SweepPlan {
                e1_full_depth: 4,
                e1_core_depth: 6,
                e1_mini_depth: 7,
                skeleton_full: true,
                rep3: true,
                k1_full_skeletons: true,
                k1_all_bytes: true,
                k2: true,
                langid_only: false,
            }
        }
    }
}

/// Runs `checker` over the E1 and E2 spaces of the plan and fills the report.
pub fn sweep(ctx: &Ctx, plan: &SweepPlan, rep: &mut Report, checker: &Checker) -> Local {
    let mut all = Local::new();
    let coll = std::mem::take(&mut rep.collector);
    let chk = |b: &[u8], l: &mut Local| checker(b, l, &coll);
    let full = sigma_full(ctx.seed);
    let core = sigma_core();
    let mini = sigma_mini();
    let mut spaces: Vec<Box<dyn Space>> = vec![];
    spaces.push(Box::new(TokenTree::new("E1.full", full.clone(), 1, plan.e1_full_depth, true)));
    // Sigma_core is a subset of Sigma_full: only the deeper levels are new inputs
    if plan.e1_core_depth > plan.e1_full_depth {
        spaces.push(Box::new(TokenTree::new("E1.core", core.clone(), plan.e1_full_depth + 1, plan.e1_core_depth, true)));
    }
    if plan.e1_mini_depth > plan.e1_core_depth {
        spaces.push(Box::new(TokenTree::new("E1.mini", mini.clone(), plan.e1_core_depth + 1, plan.e1_mini_depth, false)));
    }
    let skels = if plan.langid_only {
        langid_skeletons(plan.rep3)
    } else {
        skeletons(plan.skeleton_full, plan.rep3)
    };
    let nskel = skels.len() as u64;
    spaces.push(Box::new(SkeletonSpace { label: "E2.k0".into(), skels: skels.clone() }));
    if !plan.langid_only {
        // lists of 4..=8 elements: the skeletons themselves and every single edit of them
        let long = long_skeletons();
        spaces.push(Box::new(SkeletonSpace { label: "E2.long.k0".into(), skels: long.clone() }));
        spaces.push(Box::new(EditSpace::new("E2.long.k1", long, full.clone(), BOUNDARY_BYTES.to_vec())));
    }
    // one edit: every token edit + boundary-class byte substitutions on the (non-rep3) skeleton
    // set of the tier; in the thorough tier additionally all 256 byte values on the reduced set
    let k1_skels = if plan.langid_only {
        skels.clone()
    } else if plan.k1_full_skeletons {
        skeletons(true, false)
    } else {
        skeletons(false, false)
    };
    let k1_bytes: Vec<u8> = if plan.langid_only && plan.k1_all_bytes { ByteStrings::all_bytes() } else { BOUNDARY_BYTES.to_vec() };
    spaces.push(Box::new(EditSpace::new("E2.k1", k1_skels, full.clone(), k1_bytes)));
    if plan.k1_all_bytes && !plan.langid_only {
        spaces.push(Box::new(EditSpace::new("E2.k1.allbytes", skeletons(false, false), vec![], ByteStrings::all_bytes())));
    } else if !plan.langid_only {
        // quick tier: ALL 256 byte values at every byte position of a reduced skeleton set that has
        // every kind of subtag in every extension (a validator that folds or masks bytes before
        // testing them can let through any of the 256, not only the boundary bytes)
        spaces.push(Box::new(EditSpace::new("E2.k1.allbytes", k2_skeletons(), vec![], ByteStrings::all_bytes())));
    }
    if plan.k2 {
        let k2_skels = if plan.langid_only { langid_skeletons(false) } else { k2_skeletons() };
        spaces.push(Box::new(EditSpace::new_k2(
            "E2.k2", k2_skels, mini.clone(), vec![b'*', b'A', b'0', b'_'], core.clone(), vec![b'*', b'z', b'9', b'-'],
        )));
    }
    // the real-world dictionary: registered variants, legacy aliases, grandfathered tags,
    // extension keys/types, and every language / script / region of the bundled CLDR data
    {
        let mut words = dictionary_words();
        if !plan.langid_only || true {
            let lk = super::universe::load_likely(&ctx.repo);
            words.extend(lk.scripts.iter().filter(|s| !s.is_empty()).cloned());
            words.extend(lk.regions.iter().filter(|s| !s.is_empty()).cloned());
            // languages: all of them in the thorough tier, every 4th in the quick tier
            let step = if ctx.quick() { 4 } else { 1 };
            words.extend(lk.langs.iter().filter(|s| !s.is_empty()).step_by(step).cloned());
        }
        words.sort();
        words.dedup();
        spaces.push(Box::new(ListSpace { label: "E4.dictionary".into(), items: dictionary_inputs(&words),
            what: format!("{} real-world words (mc/data/words.txt + CLDR languages/scripts/regions) x 22 syntactic positions x 3 letter cases", words.len()) }));
    }
    // valid UTF-8 with multi-byte characters: the only strings with non-ASCII content that
    // reach the &str entry points
    spaces.push(Box::new(ListSpace { label: "E4.utf8".into(), items: utf8_strings(if ctx.quick() { 5 } else { 6 }),
        what: "every string of 1..=5 [6] characters over an 11-character alphabet with 2/3/4-byte and case-mapping-hazard characters; a multi-byte character inserted at / replacing every byte offset of 7 base texts up to 100 bytes, and the prefixes ending there".into() }));
    // histories of two calls on the stateless entry points
    spaces.push(Box::new(PairSpace { label: "E3.pairs".into(), items: history_menu() }));
    spaces.push(Box::new(NearPairSpace { label: "E3.near_pairs".into() }));
    // one identifier of every canonical length (fixed-size buffers, length fast paths)
    spaces.push(Box::new(ListSpace { label: "E2.ladder".into(), items: with_underscores(length_ladder(if ctx.quick() { 300 } else { 1100 }, !plan.langid_only)),
        what: "for every byte length up to 300 [1100]: identifiers of exactly that canonical length (4 language-id prefixes filled with distinct unsorted variants; for locales also with the length spent on attributes, keyword values, tfield values, tlang variants and private tags); each also with '_' as its first, as its last and as every separator".into() }));
    // count ladder: every list position of the grammar at every element count, in every order shape
    {
        let (n_max, rep_max) = super::counts::count_bounds(ctx);
        spaces.push(Box::new(ListSpace { label: "E2.count".into(), items: super::counts::count_inputs(n_max, rep_max, !plan.langid_only),
            what: format!("count ladder: for every list position (variants, tlang variants, attributes, keyword values, keywords, tfield values, tfields, private tags) and every n in 0..={} a list of n distinct generated elements in the orders ascending / descending / every rotation / a fixed scramble, and (n <= {}) with a second copy of element i inserted at position j for every i, j; the asc/desc/scramble shapes also in UPPER case with '_' and with a single '_'", n_max, rep_max) }));
    }
    spaces.push(Box::new(ListSpace { label: "E2.count.wide".into(), items: super::counts::wide_inputs(ctx.quick(), !plan.langid_only),
        what: "wide counts: every list position with n = 2^k - 1, 2^k, 2^k + 1 elements for 2^k = 64 .. 1024 [.. 65536] (a counter kept in a u8 / u16, a 1 KiB / 64 KiB cap): ascending, descending, descending with a repeat at the end, UPPER case with '_'; variant lists also followed by a script / region / language (ill-formed)".into() }));
    // order hazards: subtag lists on which the lexicographic order differs from the integer,
    // length-first and reversed orders
    spaces.push(Box::new(ListSpace { label: "E4.order".into(), items: order_inputs(),
        what: "every ordered pair and triple of 8 variants on which lexicographic, little-endian-integer and length-first order all differ or of which one is a prefix of another (plus 6 registered pairs), in 7 syntactic contexts; every triple of 7 such words as attributes, keyword values, tfield values and private tags".into() }));
    if !plan.langid_only {
        spaces.push(Box::new(ListSpace { label: "E4.singletons".into(), items: singleton_inputs(),
            what: "every alphanumeric byte (62) and 8 others at singleton position in 22 contexts (in front of would-be -u-/-t-/-x-/other bodies, behind complete extensions, repeated), and every ordered pair of them as two extensions of one identifier".into() }));
    }
    let mut tree_inputs = 0u64;
    let mut tree_nontrivial = 0u64;
    for sp in &spaces {
        let block = if sp.name() == "E2.k2" { 16 } else { 1 << 12 };
        let st = run_space(ctx, sp.as_ref(), block, &chk);
        rep.add_space(&sp.name(), sp.describe(), &st);
        if sp.name().starts_with("E1") || sp.name() == "E2.k0" || sp.name() == "E2.long.k0" {
            tree_inputs += st.inputs;
            tree_nontrivial += st.local.nontrivial;
        }
        all.merge(&st.local);
    }
    rep.collector = coll;
    rep.distinct_nontrivial = tree_nontrivial;
    rep.extra.insert("skeletons_replayed_against_impl".into(), json!(nskel));
    rep.extra.insert("distinct_inputs_counted_in".into(), json!(format!(
        "E1 trees and E2.k0 skeletons ({} inputs, pairwise distinct by construction); E2 edit neighbourhoods can repeat inputs and are not counted as distinct", tree_inputs)));
    rep.extra.insert("zones".into(), zones_json(&all.zones));
    rep.extra.insert("outcomes".into(), outcomes_json(&all.outcomes));
    rep.samples = all.samples_json(12);
    all
}

/// each text as it is, with `_` as its first separator, as its last separator and as every
/// separator (a length threshold combined with the other separator)
pub fn with_underscores(items: Vec<Vec<u8>>) -> Vec<Vec<u8>> {
    let mut out = std::collections::BTreeSet::new();
    for b in items {
        let seps: Vec<usize> = b.iter().enumerate().filter(|(_, c)| **c == b'-').map(|(i, _)| i).collect();
        if let (Some(&f), Some(&la)) = (seps.first(), seps.last()) {
            let mut x = b.clone();
            x[f] = b'_';
            out.insert(x);
            let mut x = b.clone();
            x[la] = b'_';
            out.insert(x);
            out.insert(b.iter().map(|c| if *c == b'-' { b'_' } else { *c }).collect());
        }
        out.insert(b);
    }
    out.into_iter().collect()
}

/// the reduced skeleton set used for two-edit neighbourhoods (kept small: every skeleton has
/// ~10^6 second-level neighbours)
pub fn k2_skeletons() -> Vec<Skeleton> {
    let mut out = vec![];
    for id in ["en", "und-Latn-US-valencia"] {
        let mut shapes: Vec<(&str, &str, &str, bool)> = vec![
            ("", "", "", false),
            ("u-abc-ca-buddhist", "t-h0-hybrid", "x-a", false),
            ("u-ca-buddhist", "t-de", "", true),
            ("u-ca-true-nu-thai", "t-de-k1-true-h0-hybrid", "x-zz-a", false),
        ];
        for u in U_SHAPES.iter().skip(1) {
            shapes.push((u, "", "", false));
        }
        for t in T_SHAPES.iter().skip(1) {
            shapes.push(("", t, "", false));
        }
        for x in X_SHAPES.iter().skip(1) {
            shapes.push(("", "", x, false));
        }
        for (u, t, x, uf) in shapes {
            out.push(build_skeleton(id, u, t, x, uf));
        }
    }
    out
}

pub fn vacuity_guard(rep: &mut Report, all: &Local, need: u64) {
    rep.extra.insert("automaton_branches".into(), cov_json(all.cov));
    if all.cov & need != need {
        rep.engine_failures.push(format!(
            "vacuity guard: reference-automaton branches not exercised: {:?}",
            cov_json(all.cov & need | !need)["missed"]
        ));
    }
}

pub fn run_c02(ctx: &Ctx) -> Report {
    let mut rep = Report::new();
    let mut plan = SweepPlan::standard(ctx);
    plan.langid_only = true;
    plan.rep3 = !ctx.quick();
    let all = sweep(ctx, &plan, &mut rep, &check_c02);
    // separator masks: every 2^(n-1) mask for the language-id skeletons (n <= 6)
    let coll = std::mem::take(&mut rep.collector);
    let skels = langid_skeletons(true);
    let mut items = vec![];
    for sk in &skels {
        let n = sk.tokens.len();
        if n < 2 || n > 7 {
            continue;
        }
        for mask in 0..(1u32 << (n - 1)) {
            let mut b = vec![];
            for (i, t) in sk.tokens.iter().enumerate() {
                if i > 0 {
                    b.push(if (mask >> (i - 1)) & 1 == 1 { b'_' } else { b'-' });
                }
                b.extend_from_slice(t);
            }
            items.push(b);
        }
    }
    let sp = ListSpace { label: "E2.sepmasks".into(), items, what: "every separator mask of every language-id skeleton".into() };
    let st = run_space(ctx, &sp, 256, &|b, l| check_c02(b, l, &coll));
    rep.add_space("E2.sepmasks", sp.describe(), &st);
    rep.collector = coll;
    rep.extra.insert("oracle_verdicts".into(), json!({
        "accept": all.zones[0] + st.local.zones[0], "invalid_language": all.zones[3] + st.local.zones[3], "invalid_subtag": all.zones[4] + st.local.zones[4]}));
    rep.extra.remove("zones");
    if all.zones[0] == 0 || all.zones[3] == 0 || all.zones[4] == 0 {
        rep.engine_failures.push("vacuity guard: an oracle verdict never occurred".into());
    }
    rep.rule = "E1: every sequence of tokens over the class alphabets up to the stated depths; E2: every language-id skeleton, every single edit (and in the thorough tier every pair of edits) of it, every separator mask; each input goes to LanguageIdentifier::from_bytes/FromStr/canonicalize/parse_language_identifier and to the independent UTS #35 recogniser. Non-trivial = the first subtag is a language subtag (the recogniser gets past state 0).".into();
    rep.assumptions = vec!["reference grammar of DESIGN.md §3.1 (written from the UTS #35 EBNF)".into()];
    rep
}

pub fn run_c03(ctx: &Ctx) -> Report {
    let mut rep = Report::new();
    let plan = SweepPlan::standard(ctx);
    let all = sweep(ctx, &plan, &mut rep, &check_c03);
    vacuity_guard(&mut rep, &all, rm::cov::ALL);
    #[cfg(feature = "likelysubtags")]
    super::conc::run_family(ctx, "parse", "c03.schedule", &mut rep);
    rep.rule = "E1 token trees + E2 skeletons and their edit neighbourhoods; each input is classified by the three-zone oracle (must-accept with value / either / must-reject / out-of-scope) and handed to Locale::from_bytes; value observed through the public getters and to_string. Non-trivial = not an immediate bad-language reject.".into();
    rep.assumptions = vec![
        "reference grammar and zones of DESIGN.md §3.1".into(),
        "'true' removed from keyword/tfield value lists (§6.3)".into(),
    ];
    rep
}

pub fn run_c13(ctx: &Ctx) -> Report {
    let mut rep = Report::new();
    let plan = SweepPlan::standard(ctx);
    let all = sweep(ctx, &plan, &mut rep, &check_c13);
    rep.extra.insert("langid_accepted_inputs".into(), json!(all.counters[0]));
    rep.extra.insert("wellformed_locale_inputs_checked_for_prefix_clause".into(), json!(all.counters[1]));
    if all.counters[0] == 0 || all.counters[1] == 0 {
        rep.engine_failures.push("vacuity guard: no accepted inputs".into());
    }
    let sum = super::history::run_harnesses(ctx, if ctx.quick() { &["H-id", "H-cross-s"] } else { &["H-id", "H-cross"] }, &["c13."], &mut rep, false);
    super::counts::run_count_histories(ctx, &mut rep, &["c13."]);
    super::history::fill_report(&mut rep, &sum, "C13: the conversions Locale <-> LanguageIdentifier on every reachable value");
    rep.rule = "E1 + E2 spaces; both parsers run on the same bytes (differential, no external oracle except 'well-formed' for clause 2); conversions checked on every accepted value and on every state of the E3 harnesses H-id and H-cross (where Locale -> LanguageIdentifier -> Locale is also an action). Non-trivial = at least one of the two parsers accepts (plus distinct E3 model values).".into();
    rep
}

pub fn run_c04_inputs(ctx: &Ctx, rep: &mut Report) -> Local {
    let plan = SweepPlan::standard(ctx);
    sweep(ctx, &plan, rep, &check_c04)
}
pub fn run_c05_inputs(ctx: &Ctx, rep: &mut Report) -> Local {
    let plan = SweepPlan::standard(ctx);
    sweep(ctx, &plan, rep, &check_c05)
}
pub fn run_c01_inputs(ctx: &Ctx, rep: &mut Report) -> Local {
    let plan = SweepPlan::standard(ctx);
    sweep(ctx, &plan, rep, &check_c01_input)
}

//! C06, C07, C08 — likely subtags: complete enumeration of the CLDR universe L x S x R (E4)
//! plus unknown representatives, against the dictionary reference built from the JSON text.

use crate::engine::*;
use refmodel::likely::{Id, Triple};
use serde_json::{json, Value};
use unic_langid_impl::likelysubtags;
use unic_langid_impl::subtags::{Language, Region, Script, Variant};
use unic_langid_impl::LanguageIdentifier;
use unic_locale_impl::Locale;

pub use super::universe::*;

fn tviol(coll: &Collector, l: &Local, sub: &'static str, class: String, u: &Universe, t: Triple, expected: String, observed: String) {
    coll.push(l.order, Violation { sub, class, case: Case::Text(format!("triple:{}", u.lk.show(t))), expected, observed });
}

fn kind_of(t: Triple) -> &'static str {
    match (t.0 != 0, t.1 != 0, t.2 != 0) {
        (true, true, true) => "l+s+r",
        (true, true, false) => "l+s",
        (true, false, true) => "l+r",
        (true, false, false) => "l",
        (false, true, true) => "s+r",
        (false, true, false) => "s",
        (false, false, true) => "r",
        (false, false, false) => "none",
    }
}

#[inline]
fn lmax(x: LTriple) -> Result<Option<LTriple>, String> {
    guard_total(|| likelysubtags::maximize(x.0, x.1, x.2))
}
#[inline]
fn lmin(x: LTriple) -> Result<Option<LTriple>, String> {
    guard_total(|| likelysubtags::minimize(x.0, x.1, x.2))
}

/// The method (`LanguageIdentifier::maximize` / `minimize`, the API users call) against the free
/// function on the same triple: same "changed" flag, same resulting fields.  Runs on EVERY triple
/// of the universe (the in-place sweeps below add variants and extensions on a sub-universe).
#[inline]
fn check_method(u: &Universe, t: Triple, x: LTriple, free: Option<LTriple>, maxi: bool, sub: &'static str, l: &mut Local, coll: &Collector) {
    let mut li = LanguageIdentifier::from_parts(x.0, x.1, x.2, &[]);
    let r = guard_total(|| if maxi { li.maximize() } else { li.minimize() });
    let changed = match r {
        Ok(c) => c,
        Err(p) => {
            tviol(coll, l, sub, format!("LanguageIdentifier::{} panics: {}", if maxi { "maximize" } else { "minimize" }, p), u, t, "a value".into(), p);
            return;
        }
    };
    let want = free.unwrap_or(x);
    // C08 constrains the flag of minimize only through "a false result leaves the identifier
    // unchanged": when the minimal form IS the identifier, either flag is consistent with it
    let flag_free = !maxi && free == Some(x);
    if (changed != free.is_some() && !flag_free) || (li.language, li.script, li.region) != want {
        tviol(coll, l, sub, format!("LanguageIdentifier::{0}() disagrees with likelysubtags::{0}", if maxi { "maximize" } else { "minimize" }), u, t,
              format!("{} {}", free.is_some(), Universe::show_lib(&Some(want))), format!("{} {}", changed, li));
    }
}

// ------------------------------------------------------------------------------------------
// C06
// ------------------------------------------------------------------------------------------

pub fn check_c06_triple(u: &Universe, t: Triple, l: &mut Local, coll: &Collector) {
    let x = u.lib(t);
    let out = match lmax(x) {
        Ok(o) => o,
        Err(p) => {
            tviol(coll, l, "c06.panic", format!("maximize panics: {}", p), u, t, "a value".into(), format!("PANIC({})", p));
            return;
        }
    };
    check_method(u, t, x, out, true, "c06.inplace", l, coll);
    let exp = u.lk.ref_maximize(t);
    let exp_lib = exp.map(|e| u.lib(e));
    l.counters[out.is_some() as usize] += 1;
    if exp.is_some() {
        l.nontrivial += 1;
    }
    if out == exp_lib {
        if l.wants(kind_idx(t) * 2 + out.is_some() as u32) {
            l.sample(kind_idx(t) * 2 + out.is_some() as u32, u.lk.show(t).as_bytes(), || format!("maximize -> {}", Universe::show_lib(&out)));
        }
        return;
    }
    if exp.is_none() {
        if let Some(f) = u.lk.uts35_fallback(t) {
            l.counters[2] += 1;
            if out == Some(u.lib(f)) {
                return;
            }
        }
    }
    tviol(coll, l, "c06.maximize", format!("maximize differs from the CLDR dictionary ({}; expected {} observed {})",
            kind_of(t), if exp.is_some() {"Some"} else {"None"}, if out.is_some() {"Some"} else {"None"}),
          u, t, u.show_ref(exp), Universe::show_lib(&out));
}

fn kind_idx(t: Triple) -> u32 {
    super::likely_kind(t)
}

fn variants_menu() -> Vec<Vec<Variant>> {
    let v = |s: &str| -> Variant { s.parse().unwrap() };
    vec![vec![], vec![v("valencia")], vec![v("1996"), v("fonipa")]]
}

fn ext_menu() -> Vec<String> {
    vec!["".into(), "-u-ca-buddhist".into(), "-t-de-h0-hybrid".into(), "-t-en-u-abc-nu-thai-x-priv".into()]
}

/// one CLDR entry K -> V: through the function and through the public in-place API from the key string
pub fn check_c06_entry(u: &Universe, k: &str, v: &str, l0: &Local, coll: &Collector) {
    let kt = u.lk.ids_of(k).expect("key in universe");
    let vt = u.lk.ids_of(v).expect("value in universe");
    let out = lmax(u.lib(kt));
    if out != Ok(Some(u.lib(vt))) {
        tviol(coll, l0, "c06.entry", "maximize(K) != V for a CLDR entry".into(), u, kt, format!("Some({})", v),
              match &out { Ok(o) => Universe::show_lib(o), Err(p) => format!("PANIC({})", p) });
    }
    let mut li: LanguageIdentifier = k.parse().expect("CLDR key parses");
    let changed = li.maximize();
    if li.to_string() != *v || !changed {
        tviol(coll, l0, "c06.entry", "LanguageIdentifier(K).maximize() != V".into(), u, kt, format!("true, {}", v), format!("{}, {}", changed, li));
    }
    // the key written in other spellings (UPPER case with '_', each subtag capitalised, lower case):
    // the identifier is the same, so is its maximized form -- a spelling that leaves another
    // internal representation behind (`UND` kept as text) changes the lookup
    if k != "und" {
        let cap: String = k.split('-').map(|t| { let mut c = t.to_ascii_lowercase(); if let Some(f) = c.get_mut(0..1) { f.make_ascii_uppercase(); } c }).collect::<Vec<_>>().join("-");
        for sp in [k.to_ascii_uppercase().replace('-', "_"), cap, k.to_ascii_lowercase()] {
            match guard_total(|| { let mut li: LanguageIdentifier = sp.parse().map_err(|_| ())?; let ch = li.maximize(); Ok::<_, ()>((ch, li.to_string())) }) {
                Ok(Ok((true, s))) if s == *v => {}
                o => tviol(coll, l0, "c06.entry_spelling", "a CLDR key written in another letter case / with '_' does not maximize to V".into(), u, kt, format!("true, {}", v), format!("{:?} for {}", o, sp)),
            }
        }
    }
}

/// LanguageIdentifier::maximize (bool + fields) against likelysubtags::maximize on one triple
pub fn check_c06_inplace(u: &Universe, t: Triple, l: &mut Local, coll: &Collector) {
    let x = u.lib(t);
    let mut li = LanguageIdentifier::from_parts(x.0, x.1, x.2, &[]);
    let changed = match guard_total(|| li.maximize()) {
        Ok(c) => c,
        Err(p) => {
            tviol(coll, l, "c06.panic", format!("LanguageIdentifier::maximize panics: {}", p), u, t, "a value".into(), p);
            return;
        }
    };
    let f = likelysubtags::maximize(x.0, x.1, x.2);
    let want = f.unwrap_or(x);
    if changed != f.is_some() || (li.language, li.script, li.region) != want {
        tviol(coll, l, "c06.inplace", "LanguageIdentifier::maximize disagrees with likelysubtags::maximize".into(), u, t,
              format!("{} {}", f.is_some(), Universe::show_lib(&Some(want))),
              format!("{} {}", changed, li));
    }
    l.nontrivial += changed as u64;
}

/// sub-universe for the in-place API: every key of the multi-subtag tables, plus a stride of L
pub fn sub_universe(u: &Universe) -> (Vec<Id>, Vec<Id>, Vec<Id>) {
    let mut ls: std::collections::BTreeSet<Id> = std::collections::BTreeSet::new();
    ls.insert(0);
    for (k, _) in &u.lk.dict {
        if (k.1 != 0 || k.2 != 0) && k.0 != 0 {
            ls.insert(k.0);
        }
    }
    for i in (0..u.langs.len()).step_by(14) {
        ls.insert(i as Id);
    }
    for i in u.lk.known.0..u.langs.len() {
        ls.insert(i as Id);
    }
    (
        ls.into_iter().collect(),
        (0..u.scripts.len() as Id).collect(),
        (0..u.regions.len() as Id).collect(),
    )
}

pub fn run_c06(ctx: &Ctx) -> Report {
    let mut rep = Report::new();
    let u = Universe::new(&ctx.repo);
    let coll = std::mem::take(&mut rep.collector);
    // (a) every CLDR entry K -> V (other than bare und)
    let mut l0 = Local::new();
    let mut n_entries = 0u64;
    for (k, v) in &u.lk.entries {
        if k == "und" {
            continue;
        }
        n_entries += 1;
        l0.order = n_entries;
        check_c06_entry(&u, k, v, &l0, &coll);
    }
    // (b) all triples
    let st = par_range(ctx, "E4.triples", u.size(), 1 << 14, &|idx, l| {
        check_c06_triple(&u, u.decode(idx), l, &coll);
    });
    rep.add_space("E4.triples", u.describe(), &st);
    rep.states += n_entries;
    rep.transitions += n_entries * 2;
    rep.traces += n_entries;
    rep.evaluations += n_entries;
    // (c) LanguageIdentifier::maximize (bool + fields) on the sub-universe
    let (sl, ss, sr) = sub_universe(&u);
    let n = (sl.len() * ss.len() * sr.len()) as u64;
    let st2 = par_range(ctx, "E4.inplace", n, 1 << 12, &|idx, l| {
        let r = sr[(idx % sr.len() as u64) as usize];
        let s = ss[((idx / sr.len() as u64) % ss.len() as u64) as usize];
        let la = sl[(idx / (sr.len() * ss.len()) as u64) as usize];
        check_c06_inplace(&u, (la, s, r), l, &coll);
    });
    rep.add_space("E4.inplace", json!({"languages": sl.len(), "scripts": ss.len(), "regions": sr.len(), "triples": n,
        "what": "LanguageIdentifier::maximize on {languages that key a multi-subtag entry, every 14th language, unknowns} x S x R"}), &st2);
    rep.collector = coll;
    rep.distinct_nontrivial = st.local.nontrivial;
    rep.samples = st.local.samples_json(16);
    rep.extra.insert("cldr_entries_checked".into(), json!(n_entries));
    rep.extra.insert("maximize_results".into(), json!({"none": st.local.counters[0], "some": st.local.counters[1], "triples_where_a_uts35_fallback_exists": st.local.counters[2]}));
    if st.local.counters[0] == 0 || st.local.counters[1] == 0 || n_entries < 8000 {
        rep.engine_failures.push("vacuity guard: maximize never changed / always changed, or too few entries".into());
    }
    run_unknown_domains(ctx, &u, Which::Max, "c06.unknown", &mut rep);
    run_pair_histories(ctx, &u, Which::Max, "c06.history", true, &mut rep);
    super::conc::run_family(ctx, "maximize", "c06.schedule", &mut rep);
    rep.rule = "E4: all CLDR entries K->V, then every (language, script, region) of the universe of subtags occurring in likelySubtags.json plus unknown representatives and 'absent' — the complete product; each triple goes to likelysubtags::maximize and is compared with the dictionary reference (fallbacks named by C06 accepted as alternatives). Non-trivial = the reference finds an entry. Triples are pairwise distinct by construction.".into();
    rep.assumptions = vec!["data/likelySubtags.json is the CLDR source of truth".into(), "unknown subtags of one kind behave alike (binary-search miss)".into()];
    rep
}

// ------------------------------------------------------------------------------------------
// C07
// ------------------------------------------------------------------------------------------

pub fn check_c07_triple(u: &Universe, t: Triple, l: &mut Local, coll: &Collector) {
    let x = u.lib(t);
    let out = match lmax(x) {
        Ok(o) => o,
        Err(p) => {
            tviol(coll, l, "c07.panic", format!("maximize panics: {}", p), u, t, "a value".into(), p);
            return;
        }
    };
    check_method(u, t, x, out, true, "c07.bool", l, coll);
    l.counters[out.is_some() as usize] += 1;
    if let Some(r) = out {
        l.nontrivial += 1;
        if l.wants(kind_idx(t)) {
            l.sample(kind_idx(t), u.lk.show(t).as_bytes(), || format!("maximize -> {}", Universe::show_lib(&out)));
        }
        if (!x.0.is_empty() && r.0 != x.0) || (x.1.is_some() && r.1 != x.1) || (x.2.is_some() && r.2 != x.2) {
            tviol(coll, l, "c07.keeps", format!("maximize changes a given subtag ({})", kind_of(t)), u, t,
                  "given subtags unchanged".into(), Universe::show_lib(&out));
        }
        if r.0.is_empty() || r.1.is_none() || r.2.is_none() {
            tviol(coll, l, "c07.fills", format!("maximize result is not full ({})", kind_of(t)), u, t,
                  "language, script and region all present".into(), Universe::show_lib(&out));
        }
        if r == x {
            tviol(coll, l, "c07.changed", "maximize reports a change but returns the input".into(), u, t, "None".into(), Universe::show_lib(&out));
        }
        match lmax(r) {
            Ok(None) => {}
            o => tviol(coll, l, "c07.idempotent", "maximize(maximize(x)) changes something".into(), u, t, "None".into(), format!("{:?}", o.map(|o| Universe::show_lib(&o)))),
        }
    }
}

pub fn check_c07_inplace(u: &Universe, t: Triple, vars: &[Variant], ext: &str, l: &mut Local, coll: &Collector) {
    let x = u.lib(t);
    let li0 = LanguageIdentifier::from_parts(x.0, x.1, x.2, vars);
    let mut li = li0.clone();
    let changed = li.maximize();
    let f = likelysubtags::maximize(x.0, x.1, x.2);
    if changed != f.is_some() {
        tviol(coll, l, "c07.bool", "maximize() bool differs from 'something was found'".into(), u, t, format!("{}", f.is_some()), format!("{}", changed));
    }
    if !changed && li != li0 {
        tviol(coll, l, "c07.false_unchanged", "maximize() returned false but changed the identifier".into(), u, t, li0.to_string(), li.to_string());
    }
    if changed && (li.language, li.script, li.region) != f.unwrap_or(x) {
        tviol(coll, l, "c07.bool", "maximize() fields differ from likelysubtags::maximize".into(), u, t, Universe::show_lib(&f), li.to_string());
    }
    if li.variants().collect::<Vec<_>>() != li0.variants().collect::<Vec<_>>() {
        tviol(coll, l, "c07.variants", "maximize() touched the variants".into(), u, t, li0.to_string(), li.to_string());
    }
    // the same identifier assembled with the raw constructor (variants sorted and unique as its
    // contract asks; an empty list stored as Some([])): maximize assigns three fields, it does
    // not rebuild the identifier
    {
        let mut sorted = vars.to_vec();
        sorted.sort_unstable();
        sorted.dedup();
        let mut raw = LanguageIdentifier::from_raw_parts_unchecked(x.0, x.1, x.2, Some(sorted.clone().into_boxed_slice()));
        let ch = raw.maximize();
        let want = LanguageIdentifier::from_raw_parts_unchecked(li.language, li.script, li.region, Some(sorted.into_boxed_slice()));
        if ch != changed || raw != want {
            tviol(coll, l, "c07.variants", "maximize() touched the variant storage of an identifier built with from_raw_parts_unchecked".into(), u, t, format!("{} {:?}", changed, want), format!("{} {:?}", ch, raw));
        }
    }
    let mut again = li.clone();
    if again.maximize() && !(li.language.is_empty() || li.script.is_none() || li.region.is_none()) {
        tviol(coll, l, "c07.idempotent", "maximizing a maximized identifier reports a change".into(), u, t, "false".into(), format!("true -> {}", again));
    }
    // Locale: extensions untouched
    let src = format!("{}{}", li0, ext);
    let loc0: Locale = match src.parse() {
        Ok(l) => l,
        Err(e) => {
            tviol(coll, l, "c07.setup", "cannot build the Locale for the in-place check".into(), u, t, src.clone(), format!("{:?}", e));
            return;
        }
    };
    let mut loc = loc0.clone();
    let ch2 = loc.id.maximize();
    if ch2 != changed || loc.id != li || loc.extensions != loc0.extensions || !loc.to_string().ends_with(ext) {
        tviol(coll, l, "c07.extensions", "Locale.id.maximize() differs or touched the extensions".into(), u, t,
              format!("{}{}", li, ext), loc.to_string());
    }
    l.nontrivial += changed as u64;
}

pub fn run_c07(ctx: &Ctx) -> Report {
    let mut rep = Report::new();
    let u = Universe::new(&ctx.repo);
    let coll = std::mem::take(&mut rep.collector);
    let st = par_range(ctx, "E4.triples", u.size(), 1 << 14, &|idx, l| {
        check_c07_triple(&u, u.decode(idx), l, &coll);
    });
    rep.add_space("E4.triples", u.describe(), &st);
    let (sl, ss, sr) = sub_universe(&u);
    let (vmenu, emenu) = (variants_menu(), ext_menu());
    let (nv, ne) = (vmenu.len(), emenu.len());
    // quick: every 3rd script; thorough: all
    let ss: Vec<Id> = if ctx.quick() { ss.into_iter().filter(|s| *s < 3 || s % 4 == 0).collect() } else { ss };
    let sr: Vec<Id> = if ctx.quick() { sr.into_iter().filter(|s| *s < 3 || s % 4 == 0).collect() } else { sr };
    let n = (sl.len() * ss.len() * sr.len() * nv * ne) as u64;
    let st2 = par_range(ctx, "E4.inplace", n, 1 << 10, &|idx, l| {
        let mut i = idx;
        let ei = (i % ne as u64) as usize;
        i /= ne as u64;
        let vi = (i % nv as u64) as usize;
        i /= nv as u64;
        let r = sr[(i % sr.len() as u64) as usize];
        i /= sr.len() as u64;
        let s = ss[(i % ss.len() as u64) as usize];
        i /= ss.len() as u64;
        let la = sl[i as usize];
        check_c07_inplace(&u, (la, s, r), &vmenu[vi], &emenu[ei], l, &coll);
    });
    rep.add_space("E4.inplace", json!({"languages": sl.len(), "scripts": ss.len(), "regions": sr.len(), "variant_lists": nv, "extension_sets": ne, "cases": n,
        "what": "LanguageIdentifier::maximize and Locale.id.maximize with variants and extensions attached"}), &st2);
    rep.collector = coll;
    run_c07_domains(ctx, &mut rep);
    run_spelling_differential(ctx, &u, Which::Max, "c07.spelling", &mut rep);
    rep.distinct_nontrivial = st.local.nontrivial;
    rep.samples = st.local.samples_json(8);
    rep.extra.insert("maximize_results".into(), json!({"none": st.local.counters[0], "some": st.local.counters[1]}));
    if st.local.counters[0] == 0 || st.local.counters[1] == 0 {
        rep.engine_failures.push("vacuity guard: maximize never changed / always changed".into());
    }
    // the maximize/minimize actions inside the mutation histories (E3): variants, extensions,
    // the returned bool and the other per-call clauses, on every reachable state of H-id / H-cross
    {
        let keep: Vec<(u64, u64, Violation)> = rep.collector.classes();
        let sum = super::history::run_harnesses(ctx, if ctx.quick() { &["H-id", "H-cross-s"] } else { &["H-id", "H-cross"] }, &["c07."], &mut rep, false);
        super::history::fill_report(&mut rep, &sum, "C07: maximize as an action of the mutation histories");
        let _ = keep;
    }
    super::conc::run_family(ctx, "maximize", "c07.schedule", &mut rep);
    rep.rule = "E4: the complete product L x S x R (incl. absent and unknown representatives) through likelysubtags::maximize, checked against the algebraic laws only (no data); then a sub-universe x 3 variant lists x 4 extension sets through the in-place APIs. Non-trivial = maximize changes the triple.".into();
    rep
}

// ------------------------------------------------------------------------------------------
// C08
// ------------------------------------------------------------------------------------------

fn nsr(x: &LTriple) -> u32 {
    x.1.is_some() as u32 + x.2.is_some() as u32
}

pub fn check_c08_triple(u: &Universe, t: Triple, l: &mut Local, coll: &Collector) {
    let x = u.lib(t);
    let m = match lmin(x) {
        Ok(o) => o,
        Err(p) => {
            tviol(coll, l, "c08.panic", format!("minimize panics: {}", p), u, t, "a value".into(), p);
            return;
        }
    };
    check_method(u, t, x, m, false, "c08.bool", l, coll);
    let full = |y: LTriple| -> LTriple { likelysubtags::maximize(y.0, y.1, y.2).unwrap_or(y) };
    let maxx = full(x);
    l.counters[m.is_some() as usize] += 1;
    if let Some(r) = m {
        l.nontrivial += 1;
        if l.wants(kind_idx(t)) {
            l.sample(kind_idx(t), u.lk.show(t).as_bytes(), || format!("minimize -> {}", Universe::show_lib(&m)));
        }
        if full(r) != maxx {
            tviol(coll, l, "c08.meaning", format!("minimize result maximizes to something else ({})", kind_of(t)), u, t,
                  Universe::show_lib(&Some(maxx)), format!("{} which maximizes to {}", Universe::show_lib(&m), Universe::show_lib(&Some(full(r)))));
        }
        if r.0 != maxx.0 || (r.1.is_some() && r.1 != maxx.1) || (r.2.is_some() && r.2 != maxx.2) {
            tviol(coll, l, "c08.subtags", "minimize result uses a subtag the maximized original lacks".into(), u, t,
                  format!("subtags of {}", Universe::show_lib(&Some(maxx))), Universe::show_lib(&m));
        }
        if nsr(&r) > nsr(&x) {
            tviol(coll, l, "c08.longer", "minimize result has more script/region subtags than the original".into(), u, t,
                  format!("<= {}", nsr(&x)), Universe::show_lib(&m));
        }
        // first of {l, l-r, l-s} that maximizes back
        let trials = [(maxx.0, None, None), (maxx.0, None, maxx.2), (maxx.0, maxx.1, None)];
        let first = trials.iter().enumerate().find(|(i, tr)| {
            (*i == 0 || (*i == 1 && maxx.2.is_some()) || (*i == 2 && maxx.1.is_some()))
                && likelysubtags::maximize(tr.0, tr.1, tr.2) == Some(maxx)
        });
        match first {
            Some((_, tr)) if *tr == r => {}
            other => tviol(coll, l, "c08.first", "minimize result is not the first of {l, l-r, l-s} that maximizes back".into(), u, t,
                           format!("{:?}", other.map(|(_, tr)| Universe::show_lib(&Some(*tr)))), Universe::show_lib(&m)),
        }
        // twice = once
        match lmin(r) {
            Ok(None) => {}
            Ok(Some(r2)) if r2 == r => {}
            o => tviol(coll, l, "c08.idempotent", "minimizing twice differs from minimizing once".into(), u, t,
                       Universe::show_lib(&m), format!("{:?}", o.map(|o| Universe::show_lib(&o)))),
        }
    } else {
        // a 'None' where a shorter form exists would still satisfy the stated laws; the
        // reference comparison below catches it
    }
    // minimize(maximize(x)) == minimize(x)   (function-return level, DESIGN §6.1)
    // (the same Option, DESIGN 6.1 -- or, for a library that reports "unchanged" when the
    // minimal form is the input itself, the same identifier after the call)
    match lmin(maxx) {
        Ok(mm) if mm == m || mm.unwrap_or(maxx) == m.unwrap_or(x) => {}
        o => tviol(coll, l, "c08.min_max", format!("minimize(maximize(x)) != minimize(x) ({})", kind_of(t)), u, t,
                   Universe::show_lib(&m), format!("{:?}", o.map(|o| Universe::show_lib(&o)))),
    }
    // the reference implementation (dictionary); skipped where a UTS #35 fallback could
    // legitimately make the library's maximize differ from the dictionary semantics
    // the reference implementation (dictionary).  Where a UTS #35 fallback that C06 accepts is in
    // reach of one of the maximize calls of the three-trial rule, every outcome of the rule under
    // either accepted answer is accepted (ref_minimize_options); elsewhere that set is the single
    // dictionary answer.  A library that reports "unchanged" for an already minimal identifier
    // (None where the rule yields the input itself) is accepted as well.
    let rm = u.lk.ref_minimize(t).map(|e| u.lib(e));
    if rm != m {
        let opts = u.lk.ref_minimize_options(t);
        if opts.len() > 1 {
            l.counters[2] += 1;
        }
        let ok = opts.iter().any(|o| {
            let o = o.map(|e| u.lib(e));
            o == m || (m.is_none() && o == Some(x))
        });
        if !ok {
            tviol(coll, l, "c08.reference", format!("minimize differs from the reference implementation ({})", kind_of(t)), u, t,
                  Universe::show_lib(&rm), Universe::show_lib(&m));
        }
    }
}

pub fn check_c08_inplace(u: &Universe, t: Triple, vars: &[Variant], ext: &str, l: &mut Local, coll: &Collector) {
    let x = u.lib(t);
    let li0 = LanguageIdentifier::from_parts(x.0, x.1, x.2, vars);
    let mut li = li0.clone();
    let changed = li.minimize();
    let f = likelysubtags::minimize(x.0, x.1, x.2);
    if (changed != f.is_some() && f != Some(x)) || (li.language, li.script, li.region) != f.unwrap_or(x) {
        tviol(coll, l, "c08.bool", "minimize() bool/fields differ from likelysubtags::minimize".into(), u, t, Universe::show_lib(&f), format!("{} {}", changed, li));
    }
    if !changed && li != li0 {
        tviol(coll, l, "c08.false_unchanged", "minimize() returned false but changed the identifier".into(), u, t, li0.to_string(), li.to_string());
    }
    if li.variants().collect::<Vec<_>>() != li0.variants().collect::<Vec<_>>() {
        tviol(coll, l, "c08.variants", "minimize() touched the variants".into(), u, t, li0.to_string(), li.to_string());
    }
    {
        let mut sorted = vars.to_vec();
        sorted.sort_unstable();
        sorted.dedup();
        let mut raw = LanguageIdentifier::from_raw_parts_unchecked(x.0, x.1, x.2, Some(sorted.clone().into_boxed_slice()));
        let ch = raw.minimize();
        let want = LanguageIdentifier::from_raw_parts_unchecked(li.language, li.script, li.region, Some(sorted.into_boxed_slice()));
        if ch != changed || raw != want {
            tviol(coll, l, "c08.variants", "minimize() touched the variant storage of an identifier built with from_raw_parts_unchecked".into(), u, t, format!("{} {:?}", changed, want), format!("{} {:?}", ch, raw));
        }
    }
    // minimize(maximize(x)) == minimize(x) through the in-place API
    let mut a = li0.clone();
    a.maximize();
    let ca = a.minimize();
    if (ca != changed || (changed && a != li)) && a != li {
        tviol(coll, l, "c08.min_max", "in place: minimize after maximize differs from minimize".into(), u, t, format!("{} {}", changed, li), format!("{} {}", ca, a));
    }
    let mut twice = li.clone();
    twice.minimize();
    if twice != li {
        tviol(coll, l, "c08.idempotent", "in place: minimizing twice differs from once".into(), u, t, li.to_string(), twice.to_string());
    }
    let src = format!("{}{}", li0, ext);
    if let Ok(loc0) = src.parse::<Locale>() {
        let mut loc = loc0.clone();
        let ch2 = loc.id.minimize();
        if ch2 != changed || loc.id != li || loc.extensions != loc0.extensions || !loc.to_string().ends_with(ext) {
            tviol(coll, l, "c08.extensions", "Locale.id.minimize() differs or touched the extensions".into(), u, t, format!("{}{}", li, ext), loc.to_string());
        }
    } else {
        tviol(coll, l, "c08.setup", "cannot build the Locale for the in-place check".into(), u, t, src, "parse error".into());
    }
    l.nontrivial += changed as u64;
}

pub fn run_c08(ctx: &Ctx) -> Report {
    let mut rep = Report::new();
    let u = Universe::new(&ctx.repo);
    let coll = std::mem::take(&mut rep.collector);
    let st = par_range(ctx, "E4.triples", u.size(), 1 << 14, &|idx, l| {
        check_c08_triple(&u, u.decode(idx), l, &coll);
    });
    rep.add_space("E4.triples", u.describe(), &st);
    let (sl, ss, sr) = sub_universe(&u);
    let (vmenu, emenu) = (variants_menu(), ext_menu());
    let (nv, ne) = (vmenu.len(), emenu.len());
    let ss: Vec<Id> = if ctx.quick() { ss.into_iter().filter(|s| *s < 3 || s % 4 == 0).collect() } else { ss };
    let sr: Vec<Id> = if ctx.quick() { sr.into_iter().filter(|s| *s < 3 || s % 4 == 0).collect() } else { sr };
    let n = (sl.len() * ss.len() * sr.len() * nv * ne) as u64;
    let st2 = par_range(ctx, "E4.inplace", n, 1 << 10, &|idx, l| {
        let mut i = idx;
        let ei = (i % ne as u64) as usize;
        i /= ne as u64;
        let vi = (i % nv as u64) as usize;
        i /= nv as u64;
        let r = sr[(i % sr.len() as u64) as usize];
        i /= sr.len() as u64;
        let s = ss[(i % ss.len() as u64) as usize];
        i /= ss.len() as u64;
        let la = sl[i as usize];
        check_c08_inplace(&u, (la, s, r), &vmenu[vi], &emenu[ei], l, &coll);
    });
    rep.add_space("E4.inplace", json!({"languages": sl.len(), "scripts": ss.len(), "regions": sr.len(), "variant_lists": nv, "extension_sets": ne, "cases": n}), &st2);
    rep.collector = coll;
    rep.distinct_nontrivial = st.local.nontrivial;
    rep.samples = st.local.samples_json(8);
    rep.extra.insert("minimize_results".into(), json!({"none": st.local.counters[0], "some": st.local.counters[1], "reference_comparison_skipped_fallback_in_play": st.local.counters[2]}));
    if st.local.counters[0] == 0 || st.local.counters[1] == 0 {
        rep.engine_failures.push("vacuity guard: minimize never changed / always changed".into());
    }
    // the maximize/minimize actions inside the mutation histories (E3): variants, extensions,
    // the returned bool and the other per-call clauses, on every reachable state of H-id / H-cross
    {
        let keep: Vec<(u64, u64, Violation)> = rep.collector.classes();
        let sum = super::history::run_harnesses(ctx, if ctx.quick() { &["H-id", "H-cross-s"] } else { &["H-id", "H-cross"] }, &["c08."], &mut rep, false);
        super::history::fill_report(&mut rep, &sum, "C08: minimize as an action of the mutation histories");
        let _ = keep;
    }
    run_unknown_domains(ctx, &u, Which::Min, "c08.unknown", &mut rep);
    run_spelling_differential(ctx, &u, Which::Min, "c08.spelling", &mut rep);
    run_pair_histories(ctx, &u, Which::Min, "c08.history", !ctx.quick(), &mut rep);
    super::conc::run_family(ctx, "minimize", "c08.schedule", &mut rep);
    rep.rule = "E4: the complete product L x S x R through likelysubtags::minimize; the laws of C08 are evaluated on the library alone (using the library's own maximize), the chosen form is also compared with the dictionary reference; then the in-place APIs on a sub-universe x variants x extensions. 'minimize(maximize(x)) == minimize(x)' is read at function-return level (DESIGN §6.1). Non-trivial = minimize returns a form.".into();
    rep
}

// ------------------------------------------------------------------------------------------
// replay
// ------------------------------------------------------------------------------------------

pub fn replay(ctx: &Ctx, sub: &'static str, text: &str, coll: &Collector) {
    let Some(name) = text.strip_prefix("triple:") else { return };
    let u = super::universe::shared(&ctx.repo);
    let Some(t) = u.lk.ids_of(name) else { return };
    let mut l = Local::new();
    match &sub[..3] {
        "c01" => super::values::check_c01_triple(u, t, &mut l, coll),
        "c06" => {
            check_c06_triple(u, t, &mut l, coll);
            check_c06_inplace(u, t, &mut l, coll);
            for (k, v) in &u.lk.entries {
                if k != "und" && u.lk.ids_of(k) == Some(t) {
                    check_c06_entry(u, k, v, &l, coll);
                }
            }
        }
        "c07" => {
            check_c07_triple(u, t, &mut l, coll);
            for vi in 0..variants_menu().len() {
                for ei in 0..ext_menu().len() {
                    check_c07_inplace(u, t, &variants_menu()[vi], &ext_menu()[ei], &mut l, coll);
                }
            }
        }
        "c08" => {
            check_c08_triple(u, t, &mut l, coll);
            for vi in 0..variants_menu().len() {
                for ei in 0..ext_menu().len() {
                    check_c08_inplace(u, t, &variants_menu()[vi], &ext_menu()[ei], &mut l, coll);
                }
            }
        }
        _ => {}
    }
}

// ------------------------------------------------------------------------------------------
// complete subtag domains: every well-formed subtag that the data do NOT know behaves like the
// unknown representative (turns the assumption "unknown subtags behave alike" into a check)
// ------------------------------------------------------------------------------------------

#[derive(Clone, Copy, PartialEq, Eq, Debug)]
pub enum Which {
    Max,
    Min,
}

fn apply(which: Which, method: bool, x: LTriple) -> Result<Option<LTriple>, String> {
    guard_total(|| {
        if !method {
            return match which {
                Which::Max => likelysubtags::maximize(x.0, x.1, x.2),
                Which::Min => likelysubtags::minimize(x.0, x.1, x.2),
            };
        }
        let mut li = LanguageIdentifier::from_parts(x.0, x.1, x.2, &[]);
        let ch = match which {
            Which::Max => li.maximize(),
            Which::Min => li.minimize(),
        };
        if ch {
            Some((li.language, li.script, li.region))
        } else if (li.language, li.script, li.region) != x {
            // "false" with a changed value: make it visible as a result that equals nothing
            Some((li.language, li.script, li.region))
        } else {
            None
        }
    })
}

fn show_l(x: &LTriple) -> String {
    Universe::show_lib(&Some(*x)).trim_start_matches("Some(").trim_end_matches(')').to_string()
}

const CTX_LANGS: [&str; 6] = ["", "en", "zh", "sr", "pa", "qqq"];
const CTX_SCRIPTS: [&str; 6] = ["", "Latn", "Arab", "Hant", "Cyrl", "Qaaa"];
const CTX_REGIONS: [&str; 7] = ["", "US", "TW", "RS", "PK", "001", "QQ"];

fn p_lang(s: &str) -> Language {
    if s.is_empty() { Language::default() } else { s.parse().expect("language") }
}
fn p_script(s: &str) -> Option<Script> {
    if s.is_empty() { None } else { Some(s.parse().expect("script")) }
}
fn p_region(s: &str) -> Option<Region> {
    if s.is_empty() { None } else { Some(s.parse().expect("region")) }
}

/// one candidate subtag of `kind` (0 language, 1 script, 2 region) in every context, against the
/// unknown representative of the same kind and length in the same context
pub fn check_unknown_one(u: &Universe, which: Which, sub: &'static str, kind: usize, cand: &str, l: &mut Local, coll: &Collector) {
    let known = match kind {
        0 => u.lk.langs[..u.lk.known.0].iter().any(|x| x == cand),
        1 => u.lk.scripts[..u.lk.known.1].iter().any(|x| x == cand),
        _ => u.lk.regions[..u.lk.known.2].iter().any(|x| x == cand),
    };
    // `und` is not an unknown language: it is the spelling of the absent one
    if known || (kind == 0 && cand == "und") {
        return;
    }
    let rep = match (kind, cand.len()) {
        (0, 2) => "qq",
        (0, 3) => "qqq",
        (0, _) => "qqqqq",
        (1, _) => "Qaaa",
        (2, 2) => "QQ",
        _ => "999",
    };
    if rep == cand {
        return;
    }
    debug_assert!(!u.lk.langs[..u.lk.known.0].iter().any(|x| x == rep) && !u.lk.scripts[..u.lk.known.1].iter().any(|x| x == rep) && !u.lk.regions[..u.lk.known.2].iter().any(|x| x == rep));
    l.nontrivial += 1;
    let subst = |t: Option<LTriple>, from: &LTriple, to: &LTriple| -> Option<LTriple> {
        // replace the representative by the candidate in the representative's result
        t.map(|(a, b, c)| match kind {
            0 => (if a == from.0 { to.0 } else { a }, b, c),
            1 => (a, if b == from.1 { to.1 } else { b }, c),
            _ => (a, b, if c == from.2 { to.2 } else { c }),
        })
    };
    let (n1, n2) = match kind {
        0 => (CTX_SCRIPTS.len(), CTX_REGIONS.len()),
        1 => (CTX_LANGS.len(), CTX_REGIONS.len()),
        _ => (CTX_LANGS.len(), CTX_SCRIPTS.len()),
    };
    for i in 0..n1 {
        for j in 0..n2 {
            let (xc, xr): (LTriple, LTriple) = match kind {
                0 => ((p_lang(cand), p_script(CTX_SCRIPTS[i]), p_region(CTX_REGIONS[j])), (p_lang(rep), p_script(CTX_SCRIPTS[i]), p_region(CTX_REGIONS[j]))),
                1 => ((p_lang(CTX_LANGS[i]), p_script(cand), p_region(CTX_REGIONS[j])), (p_lang(CTX_LANGS[i]), p_script(rep), p_region(CTX_REGIONS[j]))),
                _ => ((p_lang(CTX_LANGS[i]), p_script(CTX_SCRIPTS[j]), p_region(cand)), (p_lang(CTX_LANGS[i]), p_script(CTX_SCRIPTS[j]), p_region(rep))),
            };
            for method in [false, true] {
                let (rc, rr) = (apply(which, method, xc), apply(which, method, xr));
                l.counters[3] += 1;
                let want = rr.clone().map(|t| subst(t, &xr, &xc));
                if rc != want {
                    coll.push(l.order, Violation {
                        sub,
                        class: format!("{:?} ({}): a {} that the data do not know is treated differently from the unknown representative", which, if method { "method" } else { "free function" }, ["language", "script", "region"][kind]),
                        case: Case::Text(format!("unk:{:?}:{}:{}:{}:{}", which, kind, cand, i, j)),
                        expected: format!("{:?} (from {} -> {:?})", want.map(|o| o.map(|t| show_l(&t))), show_l(&xr), rr.map(|o| o.map(|t| show_l(&t)))),
                        observed: format!("{} -> {:?}", show_l(&xc), rc.map(|o| o.map(|t| show_l(&t)))),
                    });
                }
            }
        }
    }
}

fn nth_letters(mut k: u64, n: usize, upper_first: bool, upper_all: bool) -> String {
    let mut b = vec![b'a'; n];
    for i in (0..n).rev() {
        b[i] = b'a' + (k % 26) as u8;
        k /= 26;
    }
    let mut s = String::from_utf8(b).unwrap();
    if upper_all {
        s = s.to_ascii_uppercase();
    } else if upper_first {
        s = format!("{}{}", s[..1].to_ascii_uppercase(), &s[1..]);
    }
    s
}

/// every 2- and 3-letter language, every 4-letter script, every 2-letter and 3-digit region
pub fn run_unknown_domains(ctx: &Ctx, u: &Universe, which: Which, sub: &'static str, rep: &mut Report) {
    let coll = std::mem::take(&mut rep.collector);
    let n_lang = 26u64 * 26 + 26 * 26 * 26;
    let st = par_range(ctx, "E4.all_languages", n_lang, 256, &|idx, l| {
        let s = if idx < 676 { nth_letters(idx, 2, false, false) } else { nth_letters(idx - 676, 3, false, false) };
        check_unknown_one(u, which, sub, 0, &s, l, &coll);
    });
    rep.add_space("E4.all_languages", json!({"kind": "every 2- and 3-letter language subtag (18 252) that the CLDR data do not know x 6 scripts x 7 regions x {free function, method}: must behave like the unknown representative", "unknown_candidates": st.local.nontrivial}), &st);
    // scripts: all 26^4 in the thorough tier; in the quick tier every script whose first letter
    // is Q or Z (the private-use and special-purpose blocks) plus every 7th of the rest
    let n_script = 26u64.pow(4);
    let quick = ctx.quick();
    let st = par_range(ctx, "E4.all_scripts", n_script, 1024, &|idx, l| {
        let first = idx / 26u64.pow(3);
        if quick && first != 16 && first != 25 && idx % 7 != 0 {
            return;
        }
        check_unknown_one(u, which, sub, 1, &nth_letters(idx, 4, true, false), l, &coll);
    });
    rep.add_space("E4.all_scripts", json!({"kind": "every 4-letter script subtag that the CLDR data do not know [quick: the Q... and Z... blocks and every 7th of the rest] x 6 languages x 7 regions x {free function, method}", "unknown_candidates": st.local.nontrivial}), &st);
    let n_region = 676u64 + 1000;
    let st = par_range(ctx, "E4.all_regions", n_region, 64, &|idx, l| {
        let s = if idx < 676 { nth_letters(idx, 2, false, true) } else { format!("{:03}", idx - 676) };
        check_unknown_one(u, which, sub, 2, &s, l, &coll);
    });
    rep.add_space("E4.all_regions", json!({"kind": "every 2-letter and 3-digit region subtag (1 676) that the CLDR data do not know x 6 languages x 6 scripts x {free function, method}", "unknown_candidates": st.local.nontrivial}), &st);
    rep.collector = coll;
}

/// C07's algebraic laws on one triple given as library values (no universe, no data)
pub fn check_c07_laws_l(x: LTriple, l: &mut Local, coll: &Collector) {
    let desc = format!("law7:{}", show_l(&x));
    let push = |sub: &'static str, class: &str, e: String, o: String| {
        coll.push(0, Violation { sub, class: class.to_string(), case: Case::Text(desc.clone()), expected: e, observed: o });
    };
    for method in [false, true] {
        l.counters[3] += 1;
        let r = match apply(Which::Max, method, x) {
            Ok(r) => r,
            Err(p) => {
                push("c07.panic", "maximize panics", "a result".into(), p);
                return;
            }
        };
        let Some(o) = r else { continue };
        l.nontrivial += 1;
        let keeps = (x.0.is_empty() || o.0 == x.0) && (x.1.is_none() || o.1 == x.1) && (x.2.is_none() || o.2 == x.2);
        if !keeps {
            push("c07.keeps", "complete subtag domain: maximize changes a given subtag", format!("the given subtags of {} kept", show_l(&x)), show_l(&o));
        }
        if o.0.is_empty() || o.1.is_none() || o.2.is_none() {
            push("c07.fills", "complete subtag domain: maximize reports a change but leaves a subtag empty", "all three present".into(), show_l(&o));
        }
        if o == x {
            push("c07.changed", "complete subtag domain: maximize reports a change but returns the input".into(), "None".into(), show_l(&o));
        }
        match apply(Which::Max, method, o) {
            Ok(None) => {}
            other => push("c07.idempotent", "complete subtag domain: maximizing a maximized identifier changes it", "None".into(), format!("{:?}", other.map(|x| x.map(|t| show_l(&t))))),
        }
    }
}

/// every 2- and 3-letter language, every 4-letter script [quick: a stride], every region, each in
/// the 6 x 7 contexts of the other two subtags: the laws of C07 (no reference data involved)
pub fn run_c07_domains(ctx: &Ctx, rep: &mut Report) {
    let coll = std::mem::take(&mut rep.collector);
    let quick = ctx.quick();
    let n_lang = 26u64 * 26 + 26 * 26 * 26;
    let n_script = 26u64.pow(4);
    let n_region = 676u64 + 1000;
    let st = par_range(ctx, "E4.law_domains", n_lang + n_script + n_region, 256, &|idx, l| {
        if idx < n_lang {
            let s = if idx < 676 { nth_letters(idx, 2, false, false) } else { nth_letters(idx - 676, 3, false, false) };
            for sc in CTX_SCRIPTS {
                for r in CTX_REGIONS {
                    check_c07_laws_l((p_lang(&s), p_script(sc), p_region(r)), l, &coll);
                }
            }
        } else if idx < n_lang + n_script {
            let k = idx - n_lang;
            let first = k / 26u64.pow(3);
            if quick && first != 16 && first != 25 && k % 7 != 0 {
                return;
            }
            let s = nth_letters(k, 4, true, false);
            for la in CTX_LANGS {
                for r in CTX_REGIONS {
                    check_c07_laws_l((p_lang(la), p_script(&s), p_region(r)), l, &coll);
                }
            }
        } else {
            let k = idx - n_lang - n_script;
            let s = if k < 676 { nth_letters(k, 2, false, true) } else { format!("{:03}", k - 676) };
            for la in CTX_LANGS {
                for sc in CTX_SCRIPTS {
                    check_c07_laws_l((p_lang(la), p_script(sc), p_region(&s)), l, &coll);
                }
            }
        }
    });
    let mut stx = st;
    stx.inputs = stx.local.counters[3];
    rep.add_space("E4.law_domains", json!({"kind": "complete subtag domains: every 2- and 3-letter language (18 252), every 4-letter script [quick: the Q... and Z... blocks and every 7th of the rest], every 2-letter and 3-digit region (1 676), each in the 6 x 7 contexts of the other two subtags, through the free function and the method: given subtags kept, all three present, a reported change is a change, idempotence",
        "calls": stx.local.counters[3], "changed": stx.local.nontrivial}), &stx);
    rep.collector = coll;
}

/// Every CLDR key and value written in other spellings (UPPER case with '_', each subtag
/// capitalised): the in-place operation must return the same flag and leave the same text as for
/// the canonical spelling -- the identifier is the same (C09), so is the result.  A spelling
/// that leaves another internal representation behind (`UND` kept as text) changes the lookups.
pub fn run_spelling_differential(ctx: &Ctx, u: &Universe, which: Which, sub: &'static str, rep: &mut Report) {
    let coll = std::mem::take(&mut rep.collector);
    let mut texts: Vec<&String> = vec![];
    for (k, v) in &u.lk.entries {
        texts.push(k);
        texts.push(v);
    }
    texts.sort();
    texts.dedup();
    let op = |t: &str| -> Result<Option<(bool, String)>, String> {
        guard_total(|| {
            let mut li: LanguageIdentifier = t.parse().ok()?;
            let ch = match which {
                Which::Max => li.maximize(),
                Which::Min => li.minimize(),
            };
            Some((ch, li.to_string()))
        })
    };
    let st = par_range(ctx, "E4.spellings", texts.len() as u64, 64, &|i, l| {
        let x = texts[i as usize];
        let base = op(x);
        let cap: String = x.split('-').map(|t| { let mut c = t.to_ascii_lowercase(); if let Some(f) = c.get_mut(0..1) { f.make_ascii_uppercase(); } c }).collect::<Vec<_>>().join("-");
        for sp in [x.to_ascii_uppercase().replace('-', "_"), cap, x.to_ascii_lowercase()] {
            l.counters[3] += 1;
            let got = op(&sp);
            if got != base {
                coll.push(i, Violation { sub, class: format!("{:?}: the result depends on the letter case / separator in which the identifier was written", which), case: Case::Text(format!("spelling:{:?}:{}", which, sp)), expected: format!("{:?} (for {})", base, x), observed: format!("{:?} (for {})", got, sp) });
            }
        }
        l.nontrivial += 1;
    });
    let mut stx = st;
    stx.inputs = stx.local.counters[3];
    rep.add_space("E4.spellings", json!({"kind": "every CLDR likelySubtags key and value in three other spellings (UPPER case with '_', capitalised, lower case) through parse + the in-place operation: same flag, same text as for the canonical spelling", "identifiers": texts.len()}), &stx);
    rep.collector = coll;
}

pub fn replay_spelling(text: &str, coll: &Collector, sub: &'static str) {
    // spelling:<Max|Min>:<text>
    let p: Vec<&str> = text.splitn(3, ':').collect();
    if p.len() != 3 {
        return;
    }
    let which = if p[1] == "Max" { Which::Max } else { Which::Min };
    let canon: Option<String> = p[2].parse::<LanguageIdentifier>().ok().map(|l| l.to_string());
    let op = |t: &str| -> Option<(bool, String)> {
        let mut li: LanguageIdentifier = t.parse().ok()?;
        let ch = match which {
            Which::Max => li.maximize(),
            Which::Min => li.minimize(),
        };
        Some((ch, li.to_string()))
    };
    if let Some(c) = canon {
        let (a, b) = (op(&c), op(p[2]));
        if a != b {
            coll.push(0, Violation { sub, class: "spelling".into(), case: Case::Text(text.to_string()), expected: format!("{:?}", a), observed: format!("{:?}", b) });
        }
    }
}

pub fn replay_law7(text: &str, coll: &Collector) {
    let Some(rest) = text.strip_prefix("law7:") else { return };
    let Ok(li) = rest.parse::<LanguageIdentifier>() else { return };
    let mut l = Local::new();
    check_c07_laws_l((li.language, li.script, li.region), &mut l, coll);
}

pub fn replay_unknown(ctx: &Ctx, sub: &'static str, text: &str, coll: &Collector) {
    // unk:<Max|Min>:<kind>:<cand>:<i>:<j>
    let p: Vec<&str> = text.split(':').collect();
    if p.len() != 6 {
        return;
    }
    let which = if p[1] == "Max" { Which::Max } else { Which::Min };
    let Ok(kind) = p[2].parse::<usize>() else { return };
    let u = super::universe::shared(&ctx.repo);
    let c2 = Collector::new();
    let mut l = Local::new();
    check_unknown_one(u, which, sub, kind, p[3], &mut l, &c2);
    for (_, _, v) in c2.classes() {
        coll.push(0, Violation { case: Case::Text(text.to_string()), ..v });
    }
}

// ------------------------------------------------------------------------------------------
// histories of two calls over the complete key set (state kept between calls)
// ------------------------------------------------------------------------------------------

/// For every ordered pair (x, y) of CLDR keys [quick tier of C08: y within +-16 rows of x in
/// the table's integer order and in alphabetical order]: call f(x), then f(y) in the same thread,
/// and compare f(y) with the dictionary reference.  Runs on ONE thread so that a global memo or
/// search hint is in a defined state; the query functions keep no state today, so every pair
/// agrees -- a "last hit" hint, a memo or a scratch buffer shows up as a pair (x, y) whose second
/// answer depends on the first call.
pub fn run_pair_histories(ctx: &Ctx, u: &Universe, which: Which, sub: &'static str, all_pairs: bool, rep: &mut Report) {
    let t0 = std::time::Instant::now();
    let mut keys: Vec<(Triple, LTriple, Option<LTriple>)> = vec![];
    for (k, _) in &u.lk.entries {
        if k == "und" {
            continue;
        }
        let Some(t) = u.lk.ids_of(k) else { continue };
        let t = match which {
            Which::Max => t,
            // minimize is exercised on the maximized forms (the values) and on the keys
            Which::Min => t,
        };
        let exp = match which {
            Which::Max => u.lk.ref_maximize(t).map(|e| u.lib(e)),
            Which::Min => u.lk.ref_minimize(t).map(|e| u.lib(e)),
        };
        keys.push((t, u.lib(t), exp));
    }
    if which == Which::Min {
        let mut seen: std::collections::HashSet<Triple> = keys.iter().map(|k| k.0).collect();
        for (_, v) in &u.lk.entries {
            if let Some(t) = u.lk.ids_of(v) {
                if seen.insert(t) {
                    keys.push((t, u.lib(t), u.lk.ref_minimize(t).map(|e| u.lib(e))));
                }
            }
        }
    }
    // orders for the neighbourhood variant: integer order of (lang, script, region) as the
    // tables use it, and the alphabetical order of the key text
    let raw = |x: &LTriple| -> (u64, u32, u32) {
        (Into::<Option<u64>>::into(x.0).unwrap_or(0), x.1.map(|s| s.into()).unwrap_or(0u32), x.2.map(|r| r.into()).unwrap_or(0u32))
    };
    let n = keys.len();
    let mut by_int: Vec<usize> = (0..n).collect();
    by_int.sort_by_key(|&i| raw(&keys[i].1));
    let mut by_text: Vec<usize> = (0..n).collect();
    by_text.sort_by_key(|&i| u.lk.show(keys[i].0));
    let coll = std::mem::take(&mut rep.collector);
    let mut pairs = 0u64;
    let mut bad = 0u64;
    let call = |x: &LTriple| -> Option<LTriple> {
        match which {
            Which::Max => likelysubtags::maximize(x.0, x.1, x.2),
            Which::Min => likelysubtags::minimize(x.0, x.1, x.2),
        }
    };
    let mut check = |i: usize, j: usize, pairs: &mut u64, bad: &mut u64| {
        *pairs += 1;
        let _ = call(&keys[i].1);
        let got = call(&keys[j].1);
        if got != keys[j].2 && *bad < 10_000 {
            *bad += 1;
            coll.push(*pairs, Violation {
                sub,
                class: format!("{:?}: the answer for a key depends on the call made before it (state kept between calls)", which),
                case: Case::Text(format!("hist:{:?}:{}|{}", which, u.lk.show(keys[i].0), u.lk.show(keys[j].0))),
                expected: Universe::show_lib(&keys[j].2),
                observed: Universe::show_lib(&got),
            });
        }
    };
    let r = guard_total(|| {
        if all_pairs {
            for i in 0..n {
                if i % 256 == 0 && past_deadline() {
                    break;
                }
                for j in 0..n {
                    check(i, j, &mut pairs, &mut bad);
                }
            }
        } else {
            for order in [&by_int, &by_text] {
                for (p, &i) in order.iter().enumerate() {
                    let lo = p.saturating_sub(16);
                    let hi = (p + 17).min(n);
                    for q in lo..hi {
                        check(i, order[q], &mut pairs, &mut bad);
                    }
                }
            }
        }
    });
    if let Err(p) = r {
        coll.push(0, Violation { sub, class: format!("{:?} panics in a two-call history", which), case: Case::Text("hist:panic".into()), expected: "a value".into(), observed: p });
    }
    rep.collector = coll;
    rep.states += pairs;
    rep.transitions += pairs * 2;
    rep.evaluations += pairs;
    rep.traces += pairs;
    let e = rep.extra.entry("engines".to_string()).or_insert_with(|| json!({}));
    e["E3.key_pairs"] = json!({
        "space": {"kind": if all_pairs { "every ordered pair (x, y) of the keys: f(x) then f(y) on one thread, f(y) compared with the dictionary reference" } else { "ordered pairs (x, y) with y within +-16 rows of x in the tables' integer order and in alphabetical order (all pairs in the thorough tier)" },
                  "keys": n, "pairs": pairs},
        "inputs": pairs, "wall_s": (t0.elapsed().as_secs_f64() * 100.0).round() / 100.0,
    });
}

pub fn replay_hist(ctx: &Ctx, sub: &'static str, text: &str, coll: &Collector) {
    // hist:<Max|Min>:<x>|<y>
    let Some(rest) = text.strip_prefix("hist:") else { return };
    let Some((w, xy)) = rest.split_once(':') else { return };
    let Some((x, y)) = xy.split_once('|') else { return };
    let which = if w == "Max" { Which::Max } else { Which::Min };
    let u = super::universe::shared(&ctx.repo);
    let (Some(tx), Some(ty)) = (u.lk.ids_of(x), u.lk.ids_of(y)) else { return };
    let (lx, ly) = (u.lib(tx), u.lib(ty));
    let exp = match which {
        Which::Max => u.lk.ref_maximize(ty).map(|e| u.lib(e)),
        Which::Min => u.lk.ref_minimize(ty).map(|e| u.lib(e)),
    };
    let call = |x: &LTriple| match which {
        Which::Max => likelysubtags::maximize(x.0, x.1, x.2),
        Which::Min => likelysubtags::minimize(x.0, x.1, x.2),
    };
    let _ = call(&lx);
    let got = call(&ly);
    if got != exp {
        coll.push(0, Violation { sub, class: "history".into(), case: Case::Text(text.to_string()), expected: Universe::show_lib(&exp), observed: Universe::show_lib(&got) });
    }
}

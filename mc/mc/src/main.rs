//! `mc` — the checker binary (DESIGN §8).
//!
//!   mc run <ID> <quick|thorough>      parent: starts the worker under resource limits
//!   mc worker <ID> <quick|thorough>   explores, writes evidence + replay files, prints verdict lines
//!   mc replay <file>                  re-executes one recorded case twice
//!   mc selftest                       reference-model self test against the repository's own data
//!
//! Exit codes: 0 held (possibly with KNOWN-FINDING lines), 1 violation, 2 usage/build,
//! 3 engine failure (never a verdict).

mod engine;
mod obs;
mod props;
mod spaces;

use engine::*;
use serde_json::{json, Value};
use std::time::{Duration, Instant};

/// output directory (evidence/, replay/, work/) and home of known_findings.json; `VERIF_DIR`
/// overrides it for runs against scratch copies of the repository (mutation tests)
pub fn verif_dir() -> String {
    std::env::var("VERIF_DIR").unwrap_or_else(|_| "/verif".to_string())
}

fn usage() -> ! {
    eprintln!("usage: mc run|worker <ID> <quick|thorough> | mc replay <file> | mc selftest");
    std::process::exit(2)
}

fn main() {
    let args: Vec<String> = std::env::args().collect();
    if args.len() < 2 {
        usage();
    }
    match args[1].as_str() {
        "run" if args.len() >= 4 => std::process::exit(parent(&args[2], &args[3])),
        "worker" if args.len() >= 4 => std::process::exit(worker(&args[2], &args[3])),
        "replay" if args.len() >= 3 => std::process::exit(replay(&args[2])),
        "aux" if args.len() >= 4 => {
            install_panic_hook();
            let ctx = ctx_for(&args[2].to_uppercase(), &args[3]);
            set_deadline(Duration::from_secs(90 * 60));
            match props::aux(&ctx, &args[2]) {
                Some(v) => {
                    println!("{}", v);
                    std::process::exit(0)
                }
                None => usage(),
            }
        }
        "selftest" => std::process::exit(props::selftest::run(&repo_dir())),
        #[cfg(feature = "likelysubtags")]
        "conc-build" => {
            let ctx = ctx_for("C06", "quick");
            match props::conc::prepare(&ctx) {
                Ok(b) => {
                    println!("schedule-exploration harness built: {} ({} library files, {} sync tokens rewritten)", b.bin, b.files, b.rewritten);
                    std::process::exit(0)
                }
                Err(e) => {
                    eprintln!("ENGINE-FAILURE {}", e);
                    std::process::exit(3)
                }
            }
        }
        _ => usage(),
    }
}

fn repo_dir() -> String {
    std::env::var("VERIF_REPO").unwrap_or_else(|_| "/repo".to_string())
}

fn ctx_for(prop: &str, tier: &str) -> Ctx {
    let tier = match std::env::var("VERIF_TIER").ok().as_deref().unwrap_or(tier) {
        "quick" => Tier::Quick,
        "thorough" => Tier::Thorough,
        _ => usage(),
    };
    let seed = std::env::var("VERIF_SEED").ok().and_then(|s| s.parse::<i64>().ok()).unwrap_or(0) as u64;
    let threads = std::env::var("VERIF_THREADS")
        .ok()
        .and_then(|s| s.parse().ok())
        .unwrap_or_else(|| std::thread::available_parallelism().map(|n| n.get()).unwrap_or(16).min(16));
    Ctx {
        prop: prop.to_string(),
        tier,
        seed,
        threads,
        repo: repo_dir(),
    }
}

// ------------------------------------------------------------------------------------------
// parent: isolation (address-space limit, signal deaths)
// ------------------------------------------------------------------------------------------

fn parent(prop: &str, tier: &str) -> i32 {
    let exe = std::env::current_exe().expect("current_exe");
    let mem_kib: u64 = std::env::var("VERIF_MEM_KIB").ok().and_then(|s| s.parse().ok()).unwrap_or(24 * 1024 * 1024);
    // the worker's stderr is forwarded line by line; an allocation-failure abort of the worker
    // (the checker's own tables hitting the address-space limit) must be told apart from an
    // abort inside the library
    let child = std::process::Command::new("sh")
        .arg("-c")
        .arg(format!("ulimit -v {}; ulimit -s 8192; exec \"$0\" worker \"$1\" \"$2\"", mem_kib))
        .arg(&exe)
        .arg(prop)
        .arg(tier)
        .stderr(std::process::Stdio::piped())
        .spawn();
    let mut alloc_failed = false;
    let status = match child {
        Ok(mut ch) => {
            if let Some(err) = ch.stderr.take() {
                use std::io::BufRead;
                let rd = std::io::BufReader::new(err);
                for line in rd.split(b'\n') {
                    let Ok(line) = line else { break };
                    let text = String::from_utf8_lossy(&line);
                    if text.starts_with("memory allocation of ") {
                        alloc_failed = true;
                    }
                    eprintln!("{}", text);
                }
            }
            ch.wait()
        }
        Err(e) => Err(e),
    };
    match status {
        Ok(st) => {
            if let Some(code) = st.code() {
                if code == HANG_EXIT {
                    // the worker's watchdog stopped the run on a case that does not return; the
                    // case is in replay/<ID>/hang.json
                    let ctx = ctx_for(prop, tier);
                    let path = hang_path(prop);
                    if std::path::Path::new(&path).exists() {
                        write_min_evidence(&ctx, 1, &format!("the run was stopped on a call that does not return; see {}", path));
                        println!("VIOLATION property={} replay={}", prop, path);
                        return 1;
                    }
                    eprintln!("ENGINE-FAILURE the worker reported a hang but left no replay file");
                    return 3;
                }
                return code;
            }
            // died on a signal: abort / stack overflow / OOM-kill.  Attribute it to a case.
            use std::os::unix::process::ExitStatusExt;
            let sig = st.signal().unwrap_or(0);
            // SIGKILL / SIGTERM / SIGINT / SIGHUP come from outside (OOM killer, a time limit of
            // the caller); an allocation failure is the checker's own memory.  Neither says
            // anything about the library: machinery exit, never a verdict.
            if matches!(sig, 9 | 15 | 2 | 1) || alloc_failed {
                eprintln!("ENGINE-FAILURE worker died on signal {}{}; no verdict", sig, if alloc_failed { " after an allocation failure (address-space limit)" } else { " (sent from outside the process)" });
                let _ = std::fs::remove_file(format!("{}/evidence/{}.json", verif_dir(), prop));
                return 3;
            }
            let ctx = ctx_for(prop, tier);
            let progress = std::fs::read_to_string(progress_path(prop)).unwrap_or_default();
            let path = format!("{}/replay/{}/crash.json", verif_dir(), prop);
            let _ = std::fs::create_dir_all(format!("{}/replay/{}", verif_dir(), prop));
            let j = json!({"property": prop, "engine": "child process", "signal": sig,
                           "case": {"text": format!("worker died on signal {}; last progress: {}", sig, progress.trim())},
                           "expected": "every call returns", "observed": format!("process killed by signal {}", sig)});
            let _ = std::fs::write(&path, serde_json::to_string_pretty(&j).unwrap());
            write_min_evidence(&ctx, 1, &format!("worker process died on signal {} ({})", sig, progress.trim()));
            if progress.trim().is_empty() {
                eprintln!("ENGINE-FAILURE worker died on signal {} and no case could be attributed", sig);
                return 3;
            }
            println!("VIOLATION property={} replay={}", prop, path);
            1
        }
        Err(e) => {
            eprintln!("ENGINE-FAILURE cannot start worker: {}", e);
            3
        }
    }
}

pub fn progress_path(prop: &str) -> String {
    format!("{}/work/progress-{}.txt", verif_dir(), prop)
}

fn write_min_evidence(ctx: &Ctx, violations: u64, why: &str) {
    let ev = json!({
        "property_id": ctx.prop, "tier": ctx.tier_name(), "seed": ctx.seed, "level": "model_checking",
        "coverage": {"evaluations": 1, "distinct_nontrivial": 2, "states": 1, "transitions": 1,
                     "traces_validated_against_impl": 1,
                     "samples": [why], "exhaustive": false,
                     "rule": "run aborted; see the note in samples"},
        "wall_s": 0.0, "violations": violations
    });
    let _ = std::fs::create_dir_all(format!("{}/evidence", verif_dir()));
    let _ = std::fs::write(format!("{}/evidence/{}.json", verif_dir(), ctx.prop), serde_json::to_string_pretty(&ev).unwrap());
}

// ------------------------------------------------------------------------------------------
// worker
// ------------------------------------------------------------------------------------------

fn worker(prop: &str, tier: &str) -> i32 {
    let ctx = ctx_for(prop, tier);
    install_panic_hook();
    let _ = std::fs::remove_file(progress_path(prop));
    let cap = if ctx.quick() { 10 * 60 } else { 90 * 60 };
    set_deadline(Duration::from_secs(
        std::env::var("VERIF_WALL_CAP_S").ok().and_then(|s| s.parse().ok()).unwrap_or(cap),
    ));
    let t0 = Instant::now();
    let rep = match std::panic::catch_unwind(std::panic::AssertUnwindSafe(|| props::run(&ctx))) {
        Ok(Some(r)) => r,
        Ok(None) => {
            eprintln!("unknown property {}", prop);
            return 2;
        }
        Err(_) => {
            // a panic outside every guarded subject call: the checker itself failed
            eprintln!("ENGINE-FAILURE the checker panicked: {}", LAST_PANIC_ANYWHERE.lock().map(|g| g.clone()).unwrap_or_default());
            return 3;
        }
    };
    finalize(&ctx, rep, t0.elapsed().as_secs_f64())
}

#[derive(Debug)]
struct Known {
    status: String,
    property: String,
    key: String,
    what: String,
}

fn load_known() -> Vec<Known> {
    let p = format!("{}/known_findings.json", verif_dir());
    let Ok(txt) = std::fs::read_to_string(&p) else {
        return vec![];
    };
    let v: Value = serde_json::from_str(&txt).expect("known_findings.json must be valid JSON");
    v.as_array()
        .map(|a| {
            a.iter()
                .map(|e| Known {
                    status: e["status"].as_str().unwrap_or("").to_string(),
                    property: e["property"].as_str().unwrap_or("").to_string(),
                    key: e["key"].as_str().unwrap_or("").to_string(),
                    what: e["what"].as_str().unwrap_or("").to_string(),
                })
                .collect()
        })
        .unwrap_or_default()
}

fn finalize(ctx: &Ctx, rep: Report, wall: f64) -> i32 {
    let known = load_known();
    let classes = rep.collector.classes();
    let total = rep.collector.total();
    let dir = format!("{}/replay/{}", verif_dir(), ctx.prop);
    let _ = std::fs::remove_dir_all(&dir);
    let mut new_violations = 0u64;
    let mut known_hits = 0u64;
    let mut printed = 0;
    let mut lines = vec![];
    let mut pending: Vec<(String, &'static str, Case, Value)> = vec![];
    for (i, (count, _order, v)) in classes.iter().enumerate() {
        let key = v.case.key();
        let class_key = format!("class:{}:{}", v.sub, v.class);
        let open = known.iter().find(|k| {
            k.status == "open" && k.property == ctx.prop && (k.key == key || k.key == class_key)
        });
        if let Some(k) = open {
            known_hits += count;
            lines.push(format!("KNOWN-FINDING: property={} {} [{} case(s); key {}]", ctx.prop, k.what, count, k.key));
            continue;
        }
        new_violations += count;
        if printed < 20 {
            let _ = std::fs::create_dir_all(&dir);
            let path = format!("{}/{:04}.json", dir, i + 1);
            let j = json!({
                "property": ctx.prop, "sub": v.sub, "class": v.class, "cases_in_class": count,
                "case": v.case.to_json(), "expected": v.expected, "observed": v.observed,
            });
            std::fs::write(&path, serde_json::to_string_pretty(&j).unwrap()).expect("write replay");
            // determinism: the recorded case must reproduce (twice) before it is printed
            if props::replayable(v.sub) && props::case_replayable(&v.case) {
                let r1 = props::replay_case(ctx, v.sub, &v.case);
                let r2 = props::replay_case(ctx, v.sub, &v.case);
                if r1.is_empty() && r2.is_empty() {
                    // seen in the 16-thread sweep, not reproducible in a single-threaded replay:
                    // candidate for a result that depends on what other threads are doing
                    // (shared mutable state in the library); decided after the loop
                    pending.push((path.clone(), v.sub, v.case.clone(), j));
                    eprintln!("  [{}] {} x{}: {} -- does not reproduce sequentially; will be re-tried with concurrent callers", v.sub, v.class, count, v.case.key());
                    printed += 1;
                    continue;
                }
                if r1 != r2 || r1.is_empty() {
                    eprintln!("ENGINE-FAILURE replay of {} diverges or does not reproduce: {:?} vs {:?}", path, r1, r2);
                    return 3;
                }
            }
            lines.push(format!("VIOLATION property={} replay={}", ctx.prop, path));
            eprintln!("  [{}] {} x{}: {} | expected {} | observed {}", v.sub, v.class, count,
                      match &v.case { Case::Input(b) => lossy(b), c => c.key() },
                      trunc(&v.expected, 200), trunc(&v.observed, 200));
            printed += 1;
        }
    }
    // (a) histories of two calls: an input whose result depends on the call made before it in
    // the same thread (space E3.pairs) reproduces after the right predecessor
    {
        let menu = spaces::history_menu();
        let mut rest = vec![];
        for (path, sub, case, j) in pending.drain(..) {
            let mut found = None;
            if let Case::Input(_) = &case {
                for x in &menu {
                    // a fresh thread per attempt: thread-local state of earlier attempts is gone
                    let r = std::thread::scope(|sc| sc.spawn(|| (props::replay_case_after(ctx, sub, x, &case), props::replay_case_after(ctx, sub, x, &case))).join().unwrap());
                    if !r.0.is_empty() && r.0 == r.1 {
                        found = Some(x.clone());
                        break;
                    }
                }
            }
            match found {
                Some(x) => {
                    let mut j = j.clone();
                    j["after_input_hex"] = json!(hex(&x));
                    j["history_dependent"] = json!(format!("the case holds on its own and fails when the same thread has just processed {:?}: the library keeps state between calls", String::from_utf8_lossy(&x)));
                    std::fs::write(&path, serde_json::to_string_pretty(&j).unwrap()).expect("write replay");
                    lines.push(format!("VIOLATION property={} replay={}", ctx.prop, path));
                    eprintln!("  [{}] {}: reproduces after the call on {:?} (state kept between calls)", sub, case.key(), String::from_utf8_lossy(&x));
                }
                None => rest.push((path, sub, case, j)),
            }
        }
        pending = rest;
    }
    if !pending.is_empty() && lines.iter().any(|l| l.starts_with("VIOLATION")) {
        // the verdict already stands on a reproducible case (for shared mutable state: the
        // enumerated schedule of the E6 explorer); the sweep's sightings are only noted
        for (_, sub, case, _) in &pending {
            eprintln!("  [{}] {}: seen in the parallel sweep only (not reproducible single-threaded); see the reproducible case(s) above", sub, case.key());
        }
        pending.clear();
    }
    if !pending.is_empty() {
        let items: Vec<(&'static str, Case)> = pending.iter().map(|p| (p.1, p.2.clone())).collect();
        let hit = confirm_concurrently(ctx, &items, Duration::from_secs(20));
        for (k, (path, sub, case, j)) in pending.iter().enumerate() {
            if hit[k] {
                let mut j = j.clone();
                j["schedule_dependent"] = json!("the case holds in a single-threaded replay and fails when other threads call the library at the same time (free-running threads, not an enumerated schedule): the library keeps shared mutable state");
                std::fs::write(path, serde_json::to_string_pretty(&j).unwrap()).expect("write replay");
                lines.push(format!("VIOLATION property={} replay={}", ctx.prop, path));
                eprintln!("  [{}] {}: reproduces only under concurrent callers (shared mutable state)", sub, case.key());
            } else if hit.iter().any(|h| *h) {
                // the verdict stands on the confirmed cases; this one is only noted
                eprintln!("  [{}] {}: seen in the parallel sweep, not reproduced again within the budget (another case of this run was)", sub, case.key());
            } else {
                eprintln!("ENGINE-FAILURE replay of {} does not reproduce, neither sequentially nor with concurrent callers", path);
                return 3;
            }
        }
    }
    // evidence
    let mut cov = serde_json::Map::new();
    cov.insert("states".into(), json!(rep.states.max(1)));
    cov.insert("transitions".into(), json!(rep.transitions.max(1)));
    cov.insert("traces_validated_against_impl".into(), json!(rep.traces));
    cov.insert("evaluations".into(), json!(rep.evaluations.max(1)));
    cov.insert("distinct_nontrivial".into(), json!(rep.distinct_nontrivial));
    cov.insert("rule".into(), json!(rep.rule));
    cov.insert("exhaustive".into(), json!(rep.exhaustive && rep.engine_failures.is_empty() && !stopped_early()));
    if stopped_early() {
        cov.insert("stopped_early".into(), json!(format!("the enumeration was cut short after {} violating cases (the verdict is 'violated' either way)", VIOLATION_CAP)));
    }
    cov.insert("samples".into(), json!(if rep.samples.is_empty() { vec![json!("none")] } else { rep.samples.clone() }));
    cov.insert("violation_classes".into(), json!(classes.len()));
    cov.insert("violating_cases".into(), json!(total));
    cov.insert("known_finding_cases".into(), json!(known_hits));
    cov.insert("threads".into(), json!(ctx.threads));
    cov.insert("engine_failures".into(), json!(rep.engine_failures));
    for (k, v) in rep.extra.iter() {
        cov.insert(k.clone(), v.clone());
    }
    let ev = json!({
        "property_id": ctx.prop, "tier": ctx.tier_name(), "seed": ctx.seed, "level": "model_checking",
        "coverage": Value::Object(cov),
        "assumptions": rep.assumptions,
        "wall_s": (wall * 100.0).round() / 100.0,
        "violations": new_violations,
    });
    let _ = std::fs::create_dir_all(format!("{}/evidence", verif_dir()));
    std::fs::write(format!("{}/evidence/{}.json", verif_dir(), ctx.prop), serde_json::to_string_pretty(&ev).unwrap())
        .expect("write evidence");
    for l in &lines {
        println!("{}", l);
    }
    // vacuity guards of spaces that were cut short by the violation cap say nothing
    let failures: Vec<&String> = rep.engine_failures.iter().filter(|f| !(stopped_early() && f.starts_with("vacuity guard"))).collect();
    if !failures.is_empty() {
        for f in &failures {
            eprintln!("ENGINE-FAILURE {}", f);
        }
        if new_violations == 0 {
            return 3;
        }
        // violations were found and reproduced: the verdict stands, the engine failures are
        // printed for the record
    }
    println!(
        "{} {} tier={} seed={} states={} transitions={} violations={} known={} wall={:.1}s",
        if new_violations == 0 { "HELD" } else { "FAILED" },
        ctx.prop, ctx.tier_name(), ctx.seed, rep.states, rep.transitions, new_violations, known_hits, wall
    );
    if new_violations > 0 {
        1
    } else {
        0
    }
}

/// Re-executes the given cases from 8 free-running threads at once (each thread walks the list
/// from a different offset, mixed with a fixed background load of other keys) until every case
/// has shown its violation again or the budget is used up.  This is NOT an enumeration of
/// schedules: it only turns "seen once in the parallel sweep" into "seen again on demand" for
/// results that depend on concurrent callers; without it such a finding could neither be
/// replayed nor distinguished from a defect of the checker.
fn confirm_concurrently(ctx: &Ctx, items: &[(&'static str, Case)], budget: Duration) -> Vec<bool> {
    use std::sync::atomic::{AtomicBool, Ordering};
    let hit: Vec<AtomicBool> = items.iter().map(|_| AtomicBool::new(false)).collect();
    let mut load: Vec<(&'static str, Case)> = items.to_vec();
    let sub0 = items[0].0;
    for bg in ["triple:en", "triple:pl", "triple:mk", "triple:und-Latn-AM", "triple:zh-TW", "triple:sr-ME", "triple:en-GB", "triple:und-Cyrl"] {
        load.push((sub0, Case::Text(bg.to_string())));
    }
    let t0 = Instant::now();
    std::thread::scope(|sc| {
        for th in 0..8usize {
            let (hit, load) = (&hit, &load);
            sc.spawn(move || {
                let mut i = th * 3;
                while t0.elapsed() < budget && !hit.iter().all(|h| h.load(Ordering::Relaxed)) {
                    let k = i % load.len();
                    i += 1 + th % 3;
                    let r = props::replay_case(ctx, load[k].0, &load[k].1);
                    if k < hit.len() && !r.is_empty() {
                        hit[k].store(true, Ordering::Relaxed);
                    }
                }
            });
        }
    });
    hit.into_iter().map(|h| h.into_inner()).collect()
}

fn trunc(s: &str, n: usize) -> String {
    if s.len() <= n {
        s.to_string()
    } else {
        let mut e = n;
        while !s.is_char_boundary(e) {
            e -= 1;
        }
        format!("{}…", &s[..e])
    }
}

// ------------------------------------------------------------------------------------------
// replay
// ------------------------------------------------------------------------------------------

fn replay(path: &str) -> i32 {
    install_panic_hook();
    let txt = match std::fs::read_to_string(path) {
        Ok(t) => t,
        Err(e) => {
            eprintln!("cannot read {}: {}", path, e);
            return 2;
        }
    };
    let v: Value = serde_json::from_str(&txt).expect("replay file must be JSON");
    let prop = v["property"].as_str().unwrap_or("").to_string();
    let sub = v["sub"].as_str().unwrap_or("").to_string();
    let Some(case) = Case::from_json(&v["case"]) else {
        eprintln!("replay file has no usable case");
        return 2;
    };
    let ctx = ctx_for(&prop, "quick");
    let Some(sub_static) = props::sub_name(&sub) else {
        eprintln!("sub-check {} cannot be replayed in-process (see the file for the command)", sub);
        return 2;
    };
    if sub.ends_with(".hang") {
        // the recorded case did not return: re-execute it on this thread under the same CPU-time
        // watchdog (a range index, as opposed to a text, cannot be re-executed here)
        let tid = current_tid();
        let start = thread_cpu_ticks(tid);
        let (prop2, path2) = (prop.clone(), path.to_string());
        std::thread::spawn(move || {
            let t0 = Instant::now();
            loop {
                std::thread::sleep(Duration::from_millis(200));
                let hung = match (start, thread_cpu_ticks(tid)) {
                    (Some(a), Some(b)) => b.saturating_sub(a) >= HANG_SECS * CLK_TCK || (t0.elapsed() >= Duration::from_secs(HANG_BLOCKED_SECS) && b.saturating_sub(a) < CLK_TCK),
                    _ => t0.elapsed() >= Duration::from_secs(HANG_BLOCKED_SECS),
                };
                if hung {
                    println!("replay: the call has not returned after {} s of CPU time", HANG_SECS);
                    println!("VIOLATION property={} replay={}", prop2, path2);
                    std::process::exit(1);
                }
            }
        });
        let r = props::replay_case(&ctx, sub_static, &case);
        for (s, e, o) in &r {
            println!("replay: [{}] expected {} | observed {}", s, e, o);
        }
        println!("replay: the recorded case returns now");
        return 0;
    }
    let after = v.get("after_input_hex").and_then(|x| x.as_str()).and_then(unhex);
    let run = |_: u8| match &after {
        Some(x) => std::thread::scope(|sc| sc.spawn(|| props::replay_case_after(&ctx, sub_static, x, &case)).join().unwrap()),
        None => props::replay_case(&ctx, sub_static, &case),
    };
    let r1 = run(1);
    let r2 = run(2);
    if r1 != r2 {
        eprintln!("ENGINE-FAILURE divergent replay");
        return 3;
    }
    if r1.is_empty() && v.get("schedule_dependent").is_some() {
        let hit = confirm_concurrently(&ctx, &[(sub_static, case.clone())], Duration::from_secs(30));
        if hit[0] {
            println!("replay: holds single-threaded, fails with concurrent callers (shared mutable state)");
            println!("VIOLATION property={} replay={}", prop, path);
            return 1;
        }
    }
    if r1.is_empty() {
        println!("replay: {} holds on this case now", prop);
        0
    } else {
        for (s, e, o) in &r1 {
            println!("replay: [{}] expected {} | observed {}", s, e, o);
        }
        println!("VIOLATION property={} replay={}", prop, path);
        1
    }
}

//! Input spaces (DESIGN §2.1, §2.2): token alphabets, the depth-bounded token tree (E1), the
//! model-generated skeletons and their k-edit neighbourhoods (E2), byte-string products (E4).

use crate::engine::Space;
use serde_json::{json, Value};

// ------------------------------------------------------------------------------------------
// alphabets
// ------------------------------------------------------------------------------------------

pub fn sigma_core() -> Vec<Vec<u8>> {
    [
        "en", "zz", "und", "abc", "abcde", "Latn", "US", "001", "valencia", "1996", "abc1", "u",
        "t", "x", "a", "ca", "1a", "h0", "12", "foo", "bar", "true", "abcdefghi", "", "*",
    ]
    .iter()
    .map(|s| s.as_bytes().to_vec())
    .collect()
}

/// smaller alphabet for the deepest sweeps: one token per grammatical role
pub fn sigma_mini() -> Vec<Vec<u8>> {
    [
        "en", "und", "Latn", "US", "valencia", "1996", "u", "t", "x", "a", "ca", "h0", "foo",
        "true", "",
    ]
    .iter()
    .map(|s| s.as_bytes().to_vec())
    .collect()
}

pub fn sigma_full(seed: u64) -> Vec<Vec<u8>> {
    let mut v = sigma_core();
    let more: &[&[u8]] = &[
        // every length 0..9 in the patterns all-alpha, all-digit, digit-first, alpha-first mixed
        b"b", b"z", b"0", b"9", b"A", b"a1", b"11", b"c", b"abcd", b"1abc", b"a1bc", b"1234",
        b"123", b"12345", b"abcdef", b"abcdefg", b"abcdefgh", b"a1b2c3d4", b"12345678",
        b"123456789", b"a1b2c3d4e", b"root", b"a1b", b"1ab", b"ab1de",
        // case twins
        b"EN", b"UND", b"lATN", b"us", b"VALENCIA", b"U", b"T", b"X", b"CA", b"H0", b"K1",
        b"TRUE", b"True", b"k1",
        // ill-formed bytes
        b" ", b"\0", b"ab\0", b"a b", b"a.b", b"en*", b"\x80", b"\xff\xfe", b"\xc3\xa9\xc3\xa9",
        b"e\xcc\x81", b"u\0", b"abcd\xc3\xa9",
        // words the code special-cases, embedded in longer / differently cased tokens
        b"under", b"undabcde", b"aund", b"und1", b"Und", b"uND", b"trueval", b"atrue", b"tRUE",
    ];
    for m in more {
        if !v.iter().any(|x| x == m) {
            v.push(m.to_vec());
        }
    }
    if seed != 0 {
        // one extra seed-derived representative per class (the enumeration stays complete)
        let mut s = seed;
        let mut rnd = move || {
            s = s.wrapping_mul(6364136223846793005).wrapping_add(1442695040888963407);
            (s >> 33) as u32
        };
        let alpha = |r: u32| b'a' + (r % 26) as u8;
        let digit = |r: u32| b'0' + (r % 10) as u8;
        let mut extra: Vec<Vec<u8>> = vec![];
        extra.push(vec![alpha(rnd()), alpha(rnd())]);
        extra.push(vec![alpha(rnd()), alpha(rnd()), alpha(rnd())]);
        extra.push((0..4).map(|_| alpha(rnd())).collect());
        extra.push((0..6).map(|_| alpha(rnd())).collect());
        extra.push((0..3).map(|_| digit(rnd())).collect());
        extra.push(vec![digit(rnd()), alpha(rnd()), digit(rnd()), alpha(rnd())]);
        extra.push(vec![alpha(rnd()), digit(rnd())]);
        extra.push(vec![digit(rnd()), alpha(rnd())]);
        extra.push((0..7).map(|i| if i % 2 == 0 { alpha(rnd()) } else { digit(rnd()) }).collect());
        extra.push(vec![0x80 | (rnd() % 128) as u8]);
        for e in extra {
            if !v.iter().any(|x| *x == e) {
                v.push(e);
            }
        }
    }
    v
}

/// boundary byte alphabet B of C15 / the byte-substitution edits
pub const BOUNDARY_BYTES: [u8; 24] = [
    b'A', b'Z', b'a', b'z', b'M', b'm', b'0', b'9', b'5', b'@', b'[', b'`', b'{', b'/', b':',
    b'-', b'_', b' ', 0, 0x7f, 0x80, 0xff, b'*', b'.',
];

// ------------------------------------------------------------------------------------------
// E1: token tree
// ------------------------------------------------------------------------------------------

/// All sequences of `min_depth..=max_depth` tokens over `alphabet`, joined by separators.
/// Separator j of input idx is '_' when bit j of a fixed multiplicative hash of idx is set
/// (`mixed_sep`), else always '-'.
pub struct TokenTree {
    pub label: String,
    pub alphabet: Vec<Vec<u8>>,
    pub min_depth: u32,
    pub max_depth: u32,
    pub mixed_sep: bool,
    /// offsets[k] = number of sequences of depth < min_depth + k
    offsets: Vec<u64>,
}

impl TokenTree {
    pub fn new(label: &str, alphabet: Vec<Vec<u8>>, min_depth: u32, max_depth: u32, mixed_sep: bool) -> Self {
        let a = alphabet.len() as u64;
        let mut offsets = vec![0u64];
        let mut acc = 0u64;
        for d in min_depth..=max_depth {
            acc += a.pow(d);
            offsets.push(acc);
        }
        TokenTree {
            label: label.to_string(),
            alphabet,
            min_depth,
            max_depth,
            mixed_sep,
            offsets,
        }
    }
    pub fn total(&self) -> u64 {
        *self.offsets.last().unwrap()
    }
    pub fn decode(&self, idx: u64, out: &mut Vec<u8>) {
        out.clear();
        let mut k = 0;
        while self.offsets[k + 1] <= idx {
            k += 1;
        }
        let depth = self.min_depth + k as u32;
        let mut rem = idx - self.offsets[k];
        let a = self.alphabet.len() as u64;
        let sepbits = if self.mixed_sep {
            idx.wrapping_mul(0x9E37_79B9_7F4A_7C15) >> 40
        } else {
            0
        };
        // most significant token first, so that consecutive indices share prefixes
        let mut div = a.pow(depth.saturating_sub(1));
        for j in 0..depth {
            let t = (rem / div) as usize;
            rem %= div;
            if div > 1 {
                div /= a;
            }
            if j > 0 {
                out.push(if (sepbits >> j) & 1 == 1 { b'_' } else { b'-' });
            }
            out.extend_from_slice(&self.alphabet[t]);
        }
    }
}

impl Space for TokenTree {
    fn name(&self) -> String {
        self.label.clone()
    }
    fn outer_len(&self) -> u64 {
        self.total()
    }
    fn visit(&self, outer: u64, buf: &mut Vec<u8>, f: &mut dyn FnMut(&[u8])) {
        self.decode(outer, buf);
        f(buf);
    }
    fn describe(&self) -> Value {
        json!({
            "kind": "E1 token tree: all sequences of min_depth..=max_depth tokens",
            "alphabet_size": self.alphabet.len(),
            "alphabet": self.alphabet.iter().map(|t| crate::engine::lossy(t)).collect::<Vec<_>>(),
            "min_depth": self.min_depth,
            "max_depth": self.max_depth,
            "separators": if self.mixed_sep {"'-' and '_' (index-hash pattern)"} else {"'-'"},
            "sequences": self.total(),
        })
    }
}

// ------------------------------------------------------------------------------------------
// E2: skeletons
// ------------------------------------------------------------------------------------------

#[derive(Clone, Debug)]
pub struct Skeleton {
    pub tokens: Vec<Vec<u8>>,
    /// token index ranges of the unordered groups, for the C09 permutations:
    /// (kind, start, end, stride-description)
    pub groups: Vec<Group>,
}

#[derive(Clone, Debug)]
pub enum Group {
    /// variants of the language id: tokens[start..end], each one element
    Variants(usize, usize),
    /// attributes
    Attrs(usize, usize),
    /// keyword groups: list of (start,end) token ranges, each "key type*"
    Keywords(Vec<(usize, usize)>),
    /// tfield groups
    Tfields(Vec<(usize, usize)>),
    /// the -u- and -t- extension as whole ranges (singleton included)
    UT((usize, usize), (usize, usize)),
}

fn toks(s: &str) -> Vec<Vec<u8>> {
    if s.is_empty() {
        vec![]
    } else {
        s.split('-').map(|t| t.as_bytes().to_vec()).collect()
    }
}

pub const LANGS_FULL: [&str; 4] = ["en", "und", "abcde", "abcdefgh"];
pub const LANGS_REDUCED: [&str; 2] = ["en", "und"];
pub const SCRIPTS: [&str; 2] = ["", "Latn"];
pub const REGIONS: [&str; 3] = ["", "US", "001"];
pub const VARIANTS_FULL: [&str; 6] = [
    "",
    "valencia",
    "1996",
    "1996-valencia",
    "valencia-1996",
    "valencia-valencia",
];
pub const VARIANTS_REDUCED: [&str; 2] = ["", "valencia"];
/// repetition bound 3 (thorough): three variants in and out of order
pub const VARIANTS_REP3: [&str; 3] = ["1996-fonipa-valencia", "valencia-1996-fonipa", "fonipa-valencia-fonipa"];

pub const U_SHAPES: [&str; 15] = [
    "",
    "u-abc",
    "u-abc-zzz",
    "u-zzz-abc",
    "u-ca",
    "u-ca-buddhist",
    "u-ca-islamic-civil",
    "u-ca-true",
    "u-ca-buddhist-nu-thai",
    "u-nu-thai-ca-buddhist",
    "u-abc-ca-buddhist",
    "u-abc-zzz-1a-foo-ca",
    "u-ca-true-nu-thai",
    "u-nu-thai-ca-true",
    "u-ca-nu-thai",
];
pub const U_SHAPES_REP3: [&str; 4] = [
    "u-zzz-abc-mmm",
    "u-ca-islamic-civil-tbla",
    "u-nu-thai-ca-buddhist-1a-foo",
    "u-abc-abc-ca-true-true",
];
pub const T_SHAPES: [&str; 13] = [
    "",
    "t-de",
    "t-de-Latn-AT-1996",
    "t-h0-hybrid",
    "t-h0-hybrid-foo",
    "t-h0-hybrid-k1-bar",
    "t-k1-bar-h0-hybrid",
    "t-h0-true",
    "t-de-h0-hybrid",
    "t-und-Cyrl-k1-bar-baz",
    "t-h0-true-k1-bar",
    "t-k1-bar-h0-true",
    "t-de-k1-true-h0-hybrid",
];
pub const T_SHAPES_REP3: [&str; 3] = [
    "t-s0-ascii-k1-bar-h0-hybrid",
    "t-de-1996-fonipa-valencia-h0-hybrid-foo-bar",
    "t-h0-true-true",
];
pub const X_SHAPES: [&str; 4] = ["", "x-a", "x-zz-a", "x-u-ca"];
pub const X_SHAPES_REP3: [&str; 2] = ["x-zz-a-mm", "x-a-a-12345678"];

pub fn langid_skeleton_strings(full: bool, rep3: bool) -> Vec<String> {
    let langs: &[&str] = if full { &LANGS_FULL } else { &LANGS_REDUCED };
    let mut vars: Vec<&str> = if full { VARIANTS_FULL.to_vec() } else { VARIANTS_REDUCED.to_vec() };
    if rep3 {
        vars.extend(VARIANTS_REP3);
    }
    let mut out = vec![];
    for l in langs {
        for s in SCRIPTS {
            for r in REGIONS {
                for v in &vars {
                    let mut x = l.to_string();
                    for p in [s, r, v] {
                        if !p.is_empty() {
                            x.push('-');
                            x.push_str(p);
                        }
                    }
                    out.push(x);
                }
            }
        }
    }
    out
}

fn group_ranges(tokens: &[Vec<u8>], start: usize, end: usize, is_key: fn(&[u8]) -> bool) -> Vec<(usize, usize)> {
    // splits tokens[start..end] into "key value*" groups
    let mut out: Vec<(usize, usize)> = vec![];
    let mut i = start;
    while i < end {
        if is_key(&tokens[i]) {
            let s = i;
            i += 1;
            while i < end && !is_key(&tokens[i]) {
                i += 1;
            }
            out.push((s, i));
        } else {
            i += 1;
        }
    }
    out
}

/// Builds a skeleton from its parts; `u_first` puts -u- before -t-.
pub fn build_skeleton(langid: &str, u: &str, t: &str, x: &str, u_first: bool) -> Skeleton {
    let mut tokens = toks(langid);
    let mut groups = vec![];
    // variants of the id: everything after lang/script/region
    {
        let n = tokens.len();
        let mut i = 1;
        if i < n && refmodel::is_script(&tokens[i]) {
            i += 1;
        }
        if i < n && refmodel::is_region(&tokens[i]) {
            i += 1;
        }
        if n > i {
            groups.push(Group::Variants(i, n));
        }
    }
    let mut add_u = |tokens: &mut Vec<Vec<u8>>, groups: &mut Vec<Group>| -> (usize, usize) {
        let s = tokens.len();
        let ut = toks(u);
        tokens.extend(ut);
        let e = tokens.len();
        if e > s {
            let mut a_end = s + 1;
            while a_end < e && refmodel::is_attr(&tokens[a_end]) {
                a_end += 1;
            }
            if a_end > s + 1 {
                groups.push(Group::Attrs(s + 1, a_end));
            }
            let kw = group_ranges(tokens, a_end, e, refmodel::is_ukey);
            if kw.len() > 1 {
                groups.push(Group::Keywords(kw));
            }
        }
        (s, e)
    };
    let mut add_t = |tokens: &mut Vec<Vec<u8>>, groups: &mut Vec<Group>| -> (usize, usize) {
        let s = tokens.len();
        let tt = toks(t);
        tokens.extend(tt);
        let e = tokens.len();
        if e > s {
            let mut i = s + 1;
            // tlang
            if i < e && refmodel::is_lang(&tokens[i]) {
                i += 1;
                if i < e && refmodel::is_script(&tokens[i]) {
                    i += 1;
                }
                if i < e && refmodel::is_region(&tokens[i]) {
                    i += 1;
                }
                let vs = i;
                while i < e && refmodel::is_variant(&tokens[i]) {
                    i += 1;
                }
                if i - vs > 1 {
                    groups.push(Group::Variants(vs, i));
                }
            }
            let tf = group_ranges(tokens, i, e, refmodel::is_tkey);
            if tf.len() > 1 {
                groups.push(Group::Tfields(tf));
            }
        }
        (s, e)
    };
    let (ur, tr) = if u_first {
        let ur = add_u(&mut tokens, &mut groups);
        let tr = add_t(&mut tokens, &mut groups);
        (ur, tr)
    } else {
        let tr = add_t(&mut tokens, &mut groups);
        let ur = add_u(&mut tokens, &mut groups);
        (ur, tr)
    };
    if ur.1 > ur.0 && tr.1 > tr.0 {
        groups.push(Group::UT(ur, tr));
    }
    tokens.extend(toks(x));
    Skeleton { tokens, groups }
}

/// The skeleton walk of §2.2. `full` = 144 language ids, else 24. `rep3` raises the repetition
/// bound to three.
pub fn skeletons(full: bool, rep3: bool) -> Vec<Skeleton> {
    let ids = langid_skeleton_strings(full, rep3);
    let mut us: Vec<&str> = U_SHAPES.to_vec();
    let mut ts: Vec<&str> = T_SHAPES.to_vec();
    let mut xs: Vec<&str> = X_SHAPES.to_vec();
    if rep3 {
        us.extend(U_SHAPES_REP3);
        ts.extend(T_SHAPES_REP3);
        xs.extend(X_SHAPES_REP3);
    }
    let mut out = vec![];
    for id in &ids {
        for u in &us {
            for t in &ts {
                for x in &xs {
                    for u_first in [false, true] {
                        if u_first && (u.is_empty() || t.is_empty()) {
                            continue; // the order only matters when both are present
                        }
                        out.push(build_skeleton(id, u, t, x, u_first));
                    }
                }
            }
        }
    }
    out
}

/// "Long" skeletons: one list dimension at a time (and pairs of dimensions) stretched to 4..=8
/// elements, the others at a base value -- the small-scope walk above stops at two or three
/// elements per list.  Elements are given out of order so that sorting is exercised.
pub fn long_skeletons() -> Vec<Skeleton> {
    const VARS: [&str; 8] = ["valencia", "1996", "fonipa", "abcde", "1abc", "zzzzzzzz", "a1b2c", "9999"];
    const ATTRS: [&str; 8] = ["zzz", "abc", "mmm12345", "a1b", "foo", "bar", "qux9", "zz0"];
    const KEYS: [&str; 8] = ["nu", "ca", "hc", "co", "kf", "1a", "ms", "kn"];
    const TYPES: [&str; 4] = ["buddhist", "thai", "islamic-civil", "foo-bar-baz"];
    const TKEYS: [&str; 8] = ["s0", "h0", "k1", "d0", "i0", "m0", "t0", "x0"];
    const TAGS: [&str; 8] = ["zz", "a", "12345678", "b", "0", "mm", "a1", "z"];
    let vars = |n: usize| VARS[..n].join("-");
    let us_attrs = |n: usize| format!("u-{}", ATTRS[..n].join("-"));
    let us_kw = |n: usize| {
        let mut s = String::from("u");
        for i in 0..n {
            s.push('-');
            s.push_str(KEYS[i]);
            if i % 4 != 3 {
                s.push('-');
                s.push_str(TYPES[i % 4]);
            }
        }
        s
    };
    let ts = |n: usize| {
        let mut s = String::from("t-de-Latn");
        for i in 0..n {
            s.push('-');
            s.push_str(TKEYS[i]);
            s.push('-');
            s.push_str(if i % 3 == 0 { "hybrid" } else if i % 3 == 1 { "foo-bar" } else { "true-baz" });
        }
        s
    };
    let xs = |n: usize| format!("x-{}", TAGS[..n].join("-"));
    let mut out = vec![];
    for id in ["en", "und-Latn-001"] {
        for n in 4..=8usize {
            let idv = format!("{}-{}", id, vars(n));
            out.push(build_skeleton(&idv, "", "", "", false));
            out.push(build_skeleton(id, &us_attrs(n), "", "", false));
            out.push(build_skeleton(id, &us_kw(n), "", "", false));
            out.push(build_skeleton(id, "", &ts(n), "", false));
            out.push(build_skeleton(id, "", "", &xs(n), false));
            // tlang with many variants
            out.push(build_skeleton(id, "", &format!("t-de-{}-h0-hybrid", vars(n)), "", false));
        }
        // very long lists (buffers of 64 / 128 / 256 bytes, small-vector spill-overs, ...):
        // 12, 16 and 32 generated elements of one kind
        for n in [12usize, 16, 32] {
            let gen = |prefix: &str, len: usize, i: usize| -> String {
                // distinct alphanumeric subtags of the requested length, not in sorted order
                let mut x = format!("{}{:0width$}", prefix, (i * 7919) % 10usize.pow((len - prefix.len()) as u32), width = len - prefix.len());
                x.truncate(len);
                x
            };
            let vs: Vec<String> = (0..n).map(|i| gen("v", 8, i)).collect();
            let at: Vec<String> = (0..n).map(|i| gen("a", 8, i)).collect();
            let tg: Vec<String> = (0..n).map(|i| gen("p", 8, i)).collect();
            out.push(build_skeleton(&format!("{}-{}", id, vs.join("-")), "", "", "", false));
            out.push(build_skeleton(id, &format!("u-{}", at.join("-")), "", "", false));
            out.push(build_skeleton(id, &format!("u-ca-{}", at.join("-")), "", "", false));
            out.push(build_skeleton(id, "", &format!("t-h0-{}", at.join("-")), "", false));
            out.push(build_skeleton(id, "", &format!("t-de-{}", vs.join("-")), "", false));
            out.push(build_skeleton(id, "", "", &format!("x-{}", tg.join("-")), false));
            // many keywords / tfields with distinct keys
            let kws: Vec<String> = (0..n.min(26)).map(|i| format!("{}{}-{}", (b'a' + (i as u8 * 5) % 26) as char, (b'a' + (i as u8 * 3 + 1) % 26) as char, gen("t", 5, i))).collect();
            let tfs: Vec<String> = (0..n.min(26)).map(|i| format!("{}{}-{}", (b'a' + (i as u8 * 7) % 26) as char, i % 10, gen("w", 6, i))).collect();
            let mut seen = std::collections::BTreeSet::new();
            let kws: Vec<String> = kws.into_iter().filter(|k| seen.insert(k[..2].to_string())).collect();
            let mut seen = std::collections::BTreeSet::new();
            let tfs: Vec<String> = tfs.into_iter().filter(|k| seen.insert(k[..2].to_string())).collect();
            out.push(build_skeleton(id, &format!("u-{}", kws.join("-")), &format!("t-{}", tfs.join("-")), "", false));
        }
        for (a, b) in [(4usize, 4usize), (5, 6), (8, 8)] {
            let idv = format!("{}-{}", id, vars(a));
            let mut u = us_attrs(a);
            u.push_str(&us_kw(b)[1..]);
            out.push(build_skeleton(&idv, &u, &ts(b), &xs(a), false));
            out.push(build_skeleton(&idv, &u, &ts(b), &xs(a), true));
            out.push(build_skeleton(id, &us_kw(a), &ts(b), "", true));
            out.push(build_skeleton(&idv, "", "", &xs(b), false));
        }
    }
    out
}

pub fn langid_skeletons(rep3: bool) -> Vec<Skeleton> {
    langid_skeleton_strings(true, rep3)
        .iter()
        .map(|s| build_skeleton(s, "", "", "", false))
        .collect()
}

pub fn join(tokens: &[Vec<u8>], out: &mut Vec<u8>) {
    out.clear();
    for (i, t) in tokens.iter().enumerate() {
        if i > 0 {
            out.push(b'-');
        }
        out.extend_from_slice(t);
    }
}

/// The skeletons themselves (k = 0): model traces replayed against the implementation.
pub struct SkeletonSpace {
    pub label: String,
    pub skels: Vec<Skeleton>,
}
impl Space for SkeletonSpace {
    fn name(&self) -> String {
        self.label.clone()
    }
    fn outer_len(&self) -> u64 {
        self.skels.len() as u64
    }
    fn visit(&self, outer: u64, buf: &mut Vec<u8>, f: &mut dyn FnMut(&[u8])) {
        join(&self.skels[outer as usize].tokens, buf);
        f(buf);
    }
    fn describe(&self) -> Value {
        json!({"kind": "E2 skeletons (k=0), generated by walking the reference grammar", "skeletons": self.skels.len()})
    }
}

/// One edit of a token list / byte string.
/// Token edits, for every position i and every sigma: replace(i, sigma), insert(i, sigma),
/// delete(i), swap(i, i+1), duplicate(i).  Byte edits: substitute byte j by each value of
/// `bytes`.
pub struct EditSpace {
    pub label: String,
    pub skels: Vec<Skeleton>,
    pub sigma: Vec<Vec<u8>>,
    pub bytes: Vec<u8>,
    /// 1 or 2 edits
    pub k: u32,
    /// second-level alphabet / bytes (k = 2)
    pub sigma2: Vec<Vec<u8>>,
    pub bytes2: Vec<u8>,
    prefix: Vec<u64>,
}

fn n_token_edits(n: usize, a: usize) -> u64 {
    // replace: n*a, insert: (n+1)*a, delete: n, swap: n-1, dup: n
    (n * a + (n + 1) * a + n + n.saturating_sub(1) + n) as u64
}

fn apply_token_edit(tokens: &[Vec<u8>], sigma: &[Vec<u8>], mut e: u64, out: &mut Vec<Vec<u8>>) {
    out.clear();
    out.extend_from_slice(tokens);
    let n = tokens.len() as u64;
    let a = sigma.len() as u64;
    if e < n * a {
        let (i, s) = ((e / a) as usize, (e % a) as usize);
        out[i] = sigma[s].clone();
        return;
    }
    e -= n * a;
    if e < (n + 1) * a {
        let (i, s) = ((e / a) as usize, (e % a) as usize);
        out.insert(i, sigma[s].clone());
        return;
    }
    e -= (n + 1) * a;
    if e < n {
        out.remove(e as usize);
        return;
    }
    e -= n;
    if e < n.saturating_sub(1) {
        out.swap(e as usize, e as usize + 1);
        return;
    }
    e -= n.saturating_sub(1);
    let i = e as usize;
    let d = out[i].clone();
    out.insert(i, d);
}

impl EditSpace {
    pub fn new(label: &str, skels: Vec<Skeleton>, sigma: Vec<Vec<u8>>, bytes: Vec<u8>) -> Self {
        let mut s = EditSpace {
            label: label.to_string(),
            skels,
            sigma,
            bytes,
            k: 1,
            sigma2: vec![],
            bytes2: vec![],
            prefix: vec![],
        };
        s.index();
        s
    }
    pub fn new_k2(
        label: &str,
        skels: Vec<Skeleton>,
        sigma: Vec<Vec<u8>>,
        bytes: Vec<u8>,
        sigma2: Vec<Vec<u8>>,
        bytes2: Vec<u8>,
    ) -> Self {
        let mut s = EditSpace {
            label: label.to_string(),
            skels,
            sigma,
            bytes,
            k: 2,
            sigma2,
            bytes2,
            prefix: vec![],
        };
        s.index();
        s
    }
    fn index(&mut self) {
        let mut acc = 0u64;
        self.prefix = vec![0];
        let mut buf = vec![];
        for sk in &self.skels {
            join(&sk.tokens, &mut buf);
            acc += n_token_edits(sk.tokens.len(), self.sigma.len()) + (buf.len() * self.bytes.len()) as u64;
            self.prefix.push(acc);
        }
    }
    fn first_level(&self, outer: u64, toks_out: &mut Vec<Vec<u8>>, buf: &mut Vec<u8>) {
        // which skeleton
        let si = match self.prefix.binary_search(&outer) {
            Ok(i) => {
                // prefix values may repeat only if a skeleton has zero edits (never)
                i
            }
            Err(i) => i - 1,
        };
        let sk = &self.skels[si];
        let e = outer - self.prefix[si];
        let nt = n_token_edits(sk.tokens.len(), self.sigma.len());
        if e < nt {
            apply_token_edit(&sk.tokens, &self.sigma, e, toks_out);
            join(toks_out, buf);
        } else {
            let e = e - nt;
            join(&sk.tokens, buf);
            let nb = self.bytes.len() as u64;
            let (j, b) = ((e / nb) as usize, (e % nb) as usize);
            buf[j] = self.bytes[b];
        }
    }
}

impl Space for EditSpace {
    fn name(&self) -> String {
        self.label.clone()
    }
    fn outer_len(&self) -> u64 {
        *self.prefix.last().unwrap()
    }
    fn visit(&self, outer: u64, buf: &mut Vec<u8>, f: &mut dyn FnMut(&[u8])) {
        let mut t1: Vec<Vec<u8>> = vec![];
        self.first_level(outer, &mut t1, buf);
        if self.k == 1 {
            f(buf);
            return;
        }
        // second level: every edit of the once-edited input (re-tokenised on separators so a
        // byte edit that created or destroyed a separator is respected)
        let base = buf.clone();
        let tokens: Vec<Vec<u8>> = base
            .split(|c| *c == b'-' || *c == b'_')
            .map(|t| t.to_vec())
            .collect();
        // note: joining with '-' would lose a '_' separator; second-level token edits therefore
        // work on the '-'-joined form, which C09's separator sweeps complement.
        let nt = n_token_edits(tokens.len(), self.sigma2.len());
        let mut t2: Vec<Vec<u8>> = vec![];
        let mut b2: Vec<u8> = vec![];
        for e in 0..nt {
            apply_token_edit(&tokens, &self.sigma2, e, &mut t2);
            join(&t2, &mut b2);
            f(&b2);
        }
        for j in 0..base.len() {
            for &b in &self.bytes2 {
                b2.clear();
                b2.extend_from_slice(&base);
                b2[j] = b;
                f(&b2);
            }
        }
    }
    fn describe(&self) -> Value {
        json!({
            "kind": "E2 k-edit neighbourhood of every skeleton (replace/insert/delete/swap/duplicate a token; substitute a byte)",
            "k": self.k,
            "skeletons": self.skels.len(),
            "token_alphabet": self.sigma.len(),
            "byte_values": self.bytes.len(),
            "first_level_edits": self.outer_len(),
            "second_level_token_alphabet": self.sigma2.len(),
            "second_level_byte_values": self.bytes2.len(),
        })
    }
}

// ------------------------------------------------------------------------------------------
// E4: byte strings
// ------------------------------------------------------------------------------------------

/// All strings of length `min_len..=max_len` over `bytes`.
pub struct ByteStrings {
    pub label: String,
    pub bytes: Vec<u8>,
    pub min_len: u32,
    pub max_len: u32,
    offsets: Vec<u64>,
}
impl ByteStrings {
    pub fn new(label: &str, bytes: Vec<u8>, min_len: u32, max_len: u32) -> Self {
        let a = bytes.len() as u64;
        let mut offsets = vec![0u64];
        let mut acc = 0u64;
        for d in min_len..=max_len {
            acc += a.pow(d);
            offsets.push(acc);
        }
        ByteStrings {
            label: label.to_string(),
            bytes,
            min_len,
            max_len,
            offsets,
        }
    }
    pub fn all_bytes() -> Vec<u8> {
        (0..=255u8).collect()
    }
}
impl Space for ByteStrings {
    fn name(&self) -> String {
        self.label.clone()
    }
    fn outer_len(&self) -> u64 {
        *self.offsets.last().unwrap()
    }
    fn visit(&self, outer: u64, buf: &mut Vec<u8>, f: &mut dyn FnMut(&[u8])) {
        buf.clear();
        let mut k = 0;
        while self.offsets[k + 1] <= outer {
            k += 1;
        }
        let len = self.min_len + k as u32;
        let mut rem = outer - self.offsets[k];
        let a = self.bytes.len() as u64;
        for _ in 0..len {
            buf.push(self.bytes[(rem % a) as usize]);
            rem /= a;
        }
        buf.reverse();
        f(buf);
    }
    fn describe(&self) -> Value {
        json!({
            "kind": "E4 all byte strings over an alphabet",
            "alphabet_size": self.bytes.len(),
            "min_len": self.min_len,
            "max_len": self.max_len,
            "strings": self.outer_len(),
        })
    }
}

/// A plain list of inputs.
pub struct ListSpace {
    pub label: String,
    pub items: Vec<Vec<u8>>,
    pub what: String,
}
impl Space for ListSpace {
    fn name(&self) -> String {
        self.label.clone()
    }
    fn outer_len(&self) -> u64 {
        self.items.len() as u64
    }
    fn visit(&self, outer: u64, buf: &mut Vec<u8>, f: &mut dyn FnMut(&[u8])) {
        buf.clear();
        buf.extend_from_slice(&self.items[outer as usize]);
        f(buf);
    }
    fn describe(&self) -> Value {
        json!({"kind": self.what, "items": self.items.len()})
    }
}

/// Strings built around the words that the library special-cases (`und`, `true`, and `root`
/// as a control): every case mask of the word, with every prefix/suffix of total length <= 3
/// over a small alphabet.  A defect that keys on such a word in a longer or differently cased
/// subtag (e.g. treating every language that starts with "und" as undetermined) lives here.
pub fn special_word_strings() -> Vec<Vec<u8>> {
    const A: [u8; 9] = [b'a', b'd', b'e', b'n', b'r', b'u', b'z', b'0', b'9'];
    let mut affixes: Vec<Vec<u8>> = vec![vec![]];
    let mut level: Vec<Vec<u8>> = vec![vec![]];
    for _ in 0..3 {
        let mut next = vec![];
        for l in &level {
            for a in A {
                let mut x = l.clone();
                x.push(a);
                next.push(x);
            }
        }
        affixes.extend(next.iter().cloned());
        level = next;
    }
    let mut out = std::collections::BTreeSet::new();
    for w in ["und", "true", "root"] {
        let wb = w.as_bytes();
        for mask in 0..(1u32 << wb.len()) {
            let word: Vec<u8> = wb.iter().enumerate().map(|(i, c)| if (mask >> i) & 1 == 1 { c.to_ascii_uppercase() } else { *c }).collect();
            for p in &affixes {
                for q in &affixes {
                    if p.len() + q.len() > 3 {
                        continue;
                    }
                    let mut x = p.clone();
                    x.extend_from_slice(&word);
                    x.extend_from_slice(q);
                    out.insert(x);
                }
            }
        }
    }
    out.into_iter().collect()
}

/// The real-world dictionary (mc/data/words.txt, embedded at build time, plus whatever the
/// caller adds from the repository's CLDR files): each word in every syntactic position.
pub const WORDS_TXT: &str = include_str!("../../data/words.txt");

pub fn dictionary_words() -> Vec<String> {
    let mut v: Vec<String> = vec![];
    for line in WORDS_TXT.lines() {
        let line = line.split('#').next().unwrap_or("");
        for w in line.split_whitespace() {
            v.push(w.to_string());
        }
    }
    v.sort();
    v.dedup();
    v
}

/// inputs for one word: alone, after a language, after language-script(-region), as attribute,
/// type, tlang, tvalue, private tag, doubled; lower and UPPER case
pub fn dictionary_inputs(words: &[String]) -> Vec<Vec<u8>> {
    let mut out = std::collections::BTreeSet::new();
    for w in words {
        for w in [w.clone(), w.to_ascii_uppercase(), w.to_ascii_lowercase()] {
            for f in [
                format!("{}", w),
                format!("en-{}", w),
                format!("{}-valencia", w),
                format!("{}-Latn-US", w),
                format!("und-Latn-{}", w),
                format!("en-US-{}", w),
                format!("en-US-{}-1996", w),
                format!("en-1996-{}", w),
                format!("en-u-{}", w),
                format!("en-u-{}-ca-gregory", w),
                format!("en-u-ca-{}", w),
                format!("en-u-ca-gregory-{}", w),
                format!("en-t-{}", w),
                format!("en-t-{}-h0-hybrid", w),
                format!("en-t-de-{}", w),
                format!("en-t-h0-{}", w),
                format!("en-x-{}", w),
                format!("{}-{}", w, w),
                format!("en-{}-{}", w, w),
                format!("{}-u-ca-gregory", w),
                format!("en-{}-u-ca-gregory-t-de-x-a", w),
                format!("en_{}", w),
            ] {
                out.insert(f.into_bytes());
            }
        }
    }
    out.into_iter().collect()
}

/// Valid UTF-8 text with multi-byte characters (DESIGN §0.5, space E4.utf8).  The byte-class
/// alphabets model "non-ASCII" by lone bytes such as 0x80 / 0xFF; those strings are not valid
/// UTF-8 and never reach the `&str` entry points (`FromStr`, `str::parse`, serde's `visit_str`,
/// `PartialEq<&str>`).  This space closes that gap:
///  (a) every string of 1..=`depth` characters over an 11-character alphabet (ASCII letter,
///      upper-case letter, digit, both separators, 2-, 3- and 4-byte characters, and the three
///      characters whose Unicode case mapping lands in ASCII: U+0130, U+212A, U+017F);
///  (b) for a set of base identifiers up to 96 bytes long: a multi-byte character of each width
///      replacing / inserted at every byte offset (so that a character straddles every offset,
///      e.g. a fixed-size buffer or a `&s[..n]` boundary), and every prefix of those.
pub fn utf8_strings(depth: u32) -> Vec<Vec<u8>> {
    const A: [&str; 11] = ["a", "Z", "1", "-", "_", "\u{e9}", "\u{20ac}", "\u{1f600}", "\u{130}", "\u{212a}", "\u{17f}"];
    let mut out: Vec<Vec<u8>> = vec![];
    let mut level: Vec<String> = vec![String::new()];
    for _ in 0..depth {
        let mut next = Vec::with_capacity(level.len() * A.len());
        for s in &level {
            for c in A {
                let mut t = s.clone();
                t.push_str(c);
                next.push(t);
            }
        }
        out.extend(next.iter().map(|s| s.clone().into_bytes()));
        level = next;
    }
    let bases = [
        "en",
        "en-US",
        "en-Latn-US-valencia",
        "sl-Latn-IT-1606nict-1694acad-1901-1959acad-1994-1996-fonipa-fonupa-nedis-rozaj-biske-njiva-osojs-solba",
        "en-Latn-GB-fonipa-oxendict-scouse-u-attr1-attr2-ca-buddhist-nu-thai-t-de-Latn-DE-h0-hybrid-x-priv1-priv2",
        "aaaaaaaaaaaaaaaaaaaaaaaaaaaaaaaaaaaaaaaaaaaaaaaaaaaaaaaaaaaaaaaaaaaaaaaaaaaaaaaaaaaaaaaaaaaaaaaaaaaa",
        "Deutsch (Schweiz) - Schweizer Hochdeutsch, traditionelle Rechtschreibung und mehr als genug Text",
    ];
    let chars = ["\u{e9}", "\u{20ac}", "\u{1f600}", "\u{130}"];
    let mut set = std::collections::BTreeSet::new();
    for b in bases {
        let bb = b.as_bytes();
        for i in 0..=bb.len() {
            for c in chars {
                // insertion at offset i
                let mut v = bb[..i].to_vec();
                v.extend_from_slice(c.as_bytes());
                v.extend_from_slice(&bb[i..]);
                set.insert(v.clone());
                // replacement of as many bytes as the character is wide
                if i + c.len() <= bb.len() {
                    let mut r = bb[..i].to_vec();
                    r.extend_from_slice(c.as_bytes());
                    r.extend_from_slice(&bb[i + c.len()..]);
                    set.insert(r);
                }
                // the prefix that ends right after the character (every total length occurs)
                let mut p = bb[..i].to_vec();
                p.extend_from_slice(c.as_bytes());
                set.insert(p);
            }
        }
    }
    out.extend(set);
    debug_assert!(out.iter().all(|b| std::str::from_utf8(b).is_ok()));
    out
}

/// Probe texts for the comparisons of a value with a string (`== &str`, `== str`): for a canonical
/// text `c` every proper prefix, `c` extended by a letter / NUL / separator, case twins, a changed
/// last byte, and -- valid UTF-8 throughout -- a 2-, 3- and 4-byte character inserted at and
/// replacing every byte offset (a comparison that slices the text at the value's own byte
/// offsets meets a character boundary violation exactly there).  Only `c` itself may compare equal.
pub fn eq_probes(c: &str) -> Vec<String> {
    let mut out: Vec<String> = vec![];
    // every byte offset of a text up to 48 bytes; the first and last 24 offsets of a longer one
    // (the number of probes stays linear in the length of the text)
    // ... plus the offsets around every power of two (a fixed-size buffer that truncates has its
    // boundary there: the value must not equal its own first 32 / 64 / 128 ... bytes)
    let mut pos: Vec<usize> = if c.len() <= 48 { (0..=c.len()).collect() } else { (0..24).chain(c.len() - 24..=c.len()).collect() };
    let mut p2 = 16usize;
    while p2 < c.len() + 2 {
        for q in [p2 - 1, p2, p2 + 1] {
            if q <= c.len() {
                pos.push(q);
            }
        }
        p2 *= 2;
    }
    pos.sort();
    pos.dedup();
    for &i in pos.iter().filter(|&&i| i < c.len()) {
        out.push(c[..i].to_string());
    }
    for suffix in ["a", "\0", "-", "-x", "_"] {
        out.push(format!("{}{}", c, suffix));
    }
    out.push(format!("\0{}", c));
    out.push(c.to_ascii_uppercase());
    out.push(c.to_ascii_lowercase());
    out.push(c.replace('-', "_"));
    if let Some(last) = c.chars().last() {
        let other = if last == 'a' { 'b' } else { 'a' };
        out.push(format!("{}{}", &c[..c.len() - 1], other));
    }
    for &i in &pos {
        for ch in ["\u{e9}", "\u{20ac}", "\u{1f600}"] {
            out.push(format!("{}{}{}", &c[..i], ch, &c[i..]));
            if i < c.len() {
                out.push(format!("{}{}{}", &c[..i], ch, &c[i + 1..]));
                out.push(format!("{}{}", &c[..i], ch));
            }
        }
    }
    out.retain(|p| p != c);
    out
}

/// Order hazards (space E4.order).  The library keeps variants, attributes and private tags
/// sorted by the byte-lexicographic order of `TinyStr8`; the same subtags also have an integer
/// form (little-endian u64) that is used as a sort key elsewhere (the likely-subtags tables, the
/// macros' raw parts).  The two orders -- and other plausible ones (length first, reversed,
/// big-endian) -- agree on the usual exemplars (`1996 < fonipa < valencia` in all of them), so a
/// change that sorts by the wrong key is invisible there.  This alphabet is built so that every
/// such order differs from the lexicographic one on some pair:
///   lexicographic       1zzz < 9aaa < aaaaaaaa < aaaaz < bbbbbb < zaaaa
///   little-endian u64   9aaa < 1zzz < zaaaa < aaaaz < bbbbbb < aaaaaaaa
///   length, then lex    1zzz < 9aaa < aaaaz < zaaaa < bbbbbb < aaaaaaaa
/// plus real registered pairs on which the integer order differs (hepburn/heploc,
/// arevela/fonipa, ekavsk/fonipa, 1606nict/1996).
/// `aaaaa` / `aaaaaaaa` and `1zzz` / `1zzzab` are prefix-related (an order or an equality test that
/// stops at the shorter text sees them as equal)
pub const ORDER_VARIANTS: [&str; 8] = ["zaaaa", "aaaaz", "bbbbbb", "1zzz", "9aaa", "aaaaaaaa", "aaaaa", "1zzzab"];
pub const ORDER_REAL_PAIRS: [(&str, &str); 6] = [("hepburn", "heploc"), ("arevela", "fonipa"), ("ekavsk", "fonipa"), ("1606nict", "1996"), ("1901", "1901orth"), ("macos", "macosx")];
/// the same idea for 3..8-character attributes / types / private tags
pub const ORDER_WORDS: [&str; 7] = ["zaa", "aaz", "bbbb", "9aa", "aaaaaaaa", "aaa", "zaab"];

/// every ordered pair and triple of the hazard alphabet (and both orders of the real pairs)
pub fn order_lists() -> Vec<Vec<&'static str>> {
    let v = ORDER_VARIANTS;
    let mut out: Vec<Vec<&'static str>> = vec![];
    for a in v {
        for b in v {
            if a != b {
                out.push(vec![a, b]);
                for c in v {
                    if c != a && c != b {
                        out.push(vec![a, b, c]);
                    }
                }
            }
        }
    }
    for (a, b) in ORDER_REAL_PAIRS {
        out.push(vec![a, b]);
        out.push(vec![b, a]);
    }
    out
}

pub fn order_inputs() -> Vec<Vec<u8>> {
    let mut set = std::collections::BTreeSet::new();
    for l in order_lists() {
        let j = l.join("-");
        for f in [
            format!("en-{}", j),
            format!("und-Latn-US-{}", j),
            format!("EN_{}", j.to_ascii_uppercase().replace('-', "_")),
            format!("en-{}-u-ca-buddhist-x-a", j),
            format!("en-t-de-{}", j),
            format!("en-t-de-{}-h0-hybrid", j),
            format!("en-{}-t-und-latn-{}", j, j),
        ] {
            set.insert(f.into_bytes());
        }
    }
    // attributes, keyword/tfield values (order must be KEPT there), private tags
    let w = ORDER_WORDS;
    for a in w {
        for b in w {
            if a == b {
                continue;
            }
            for c in w {
                for f in [
                    format!("en-u-{}-{}-{}", a, b, c),
                    format!("en-u-{}-{}-ca-{}", a, b, c),
                    format!("en-u-ca-{}-{}-{}", a, b, c),
                    format!("en-t-h0-{}-{}-{}", a, b, c),
                    format!("en-x-{}-{}-{}", a, b, c),
                    format!("en-u-ca-{}-nu-{}-t-k1-{}-h0-{}", a, b, c, a),
                ] {
                    set.insert(f.into_bytes());
                }
            }
        }
    }
    set.into_iter().collect()
}

/// The order-hazard lists as skeletons with their unordered groups marked, for the permutation /
/// duplication transformations of C09 (an order that is not total on prefix-related or
/// integer-vs-text hazards shows as a dependence on the order in which the list was written).
pub fn order_skeletons() -> Vec<Skeleton> {
    let mut out = vec![];
    for l in order_lists() {
        let j = l.join("-");
        out.push(build_skeleton(&format!("en-{}", j), "", "", "", false));
        out.push(build_skeleton(&format!("und-Latn-US-{}", j), "u-ca-buddhist", "", "x-a", false));
        out.push(build_skeleton("en", "", &format!("t-de-{}-h0-hybrid", j), "", false));
    }
    let w = ORDER_WORDS;
    for a in w {
        for b in w {
            for c in w {
                if a != b && b != c && a != c {
                    out.push(build_skeleton("en", &format!("u-{}-{}-{}", a, b, c), "", "", false));
                    out.push(build_skeleton("en-valencia", &format!("u-{}-{}-{}-ca-{}", a, b, c, a), "t-h0-hybrid", "", true));
                }
            }
        }
    }
    out
}

/// Space E4.singletons: EVERY alphanumeric byte (62) and a few others at singleton position, in
/// front of bodies that would be well-formed -u-, -t-, -x- or other-extension bodies, behind
/// complete extensions, and every ordered pair of them as two extensions of one identifier.
/// (The class alphabets carry only a handful of singleton letters; a dispatch that keys on bits
/// of the byte can confuse any two of them.)
pub fn singleton_inputs() -> Vec<Vec<u8>> {
    let mut bytes: Vec<u8> = (b'0'..=b'9').chain(b'a'..=b'z').chain(b'A'..=b'Z').collect();
    bytes.extend([b'*', b'@', b'[', b'`', b'{', b'/', b':', 0x80]);
    let mut out: Vec<Vec<u8>> = vec![];
    let put = |tmpl: &str, b1: u8, b2: u8, out: &mut Vec<Vec<u8>>| {
        let mut v = vec![];
        for c in tmpl.bytes() {
            match c {
                b'#' => v.push(b1),
                b'%' => v.push(b2),
                c => v.push(c),
            }
        }
        out.push(v);
    };
    for &b in &bytes {
        for t in [
            "en-#", "en-#-ca-buddhist", "en-#-es-AR", "en-#-private", "en-#-abc", "en-#-h0-hybrid", "en-#-ab", "en-#-abc-def-ghi",
            "en-u-ca-buddhist-#-abc", "en-t-de-#-abc", "en-t-h0-hybrid-#-abc", "en-#-abc-x-a", "en-x-#-abc", "en-#-abc-u-ca-buddhist",
            "und_#_foo_bar", "en-Latn-US-valencia-#-a1-zzz", "EN-#-CA-BUDDHIST", "en-#-ca-buddhist-#-nu-thai", "en-#-de-#-h0-hybrid",
            "en-#-true", "en-#-1996", "en-#-valencia",
        ] {
            put(t, b, b, &mut out);
        }
    }
    for &b1 in &bytes {
        for &b2 in &bytes {
            put("en-#-abc-%-def", b1, b2, &mut out);
            put("en-#-ca-buddhist-%-h0-hybrid", b1, b2, &mut out);
        }
    }
    out
}

/// Length ladder (space E2.ladder): for EVERY byte length L up to `max_len` an identifier whose
/// canonical text is exactly L bytes long (three language-id prefixes, the rest filled with
/// distinct generated variants given out of order) -- a fixed-size buffer, a `len <= N` fast
/// path or an off-by-one in a length computation has its boundary at some L, and the skeleton
/// families only visit a handful of lengths.  With `locales`, the same ladder with the extra
/// length spent on -u- attributes, -t- field values and -x- tags.
pub fn length_ladder(max_len: usize, locales: bool) -> Vec<Vec<u8>> {
    fn piece(n_chars: usize, i: usize, lead: char) -> String {
        // a distinct alphanumeric subtag of exactly n_chars characters
        if n_chars == 4 && lead == 'v' {
            // variant of 4: digit + 3 alphanumerics
            return format!("{}{:03}", (i * 7) % 10, (i * 7919) % 1000);
        }
        let w = n_chars - 1;
        let mut x = format!("{}{:0width$}", lead, (i * 7919 + 13) % 10usize.pow(w.min(9) as u32), width = w);
        x.truncate(n_chars);
        x
    }
    fn fill(r: usize, lead: char, min_chars: usize) -> Option<Vec<String>> {
        // r bytes = k pieces of (1 separator + min_chars..=8 characters)
        if r == 0 {
            return Some(vec![]);
        }
        let (lo, hi) = (min_chars + 1, 9);
        let k = (r + hi - 1) / hi;
        if r < lo * k {
            return None;
        }
        let (base, extra) = (r / k, r % k);
        Some((0..k).map(|i| piece(if i < extra { base } else { base - 1 }, i, lead)).collect())
    }
    let mut out = std::collections::BTreeSet::new();
    for prefix in ["en", "und-Latn-US", "sr-Cyrl", "abcdefgh-001"] {
        for len in prefix.len()..=max_len {
            let r = len - prefix.len();
            if let Some(vs) = fill(r, 'v', 4) {
                let mut s = prefix.to_string();
                for v in &vs {
                    s.push('-');
                    s.push_str(v);
                }
                debug_assert_eq!(s.len(), len);
                out.insert(s.clone().into_bytes());
                if locales {
                    // the same text with one of the variants turned into extension content
                    for (intro, lead, minc) in [("-u", 'a', 3usize), ("-u-ca", 'c', 3), ("-t-h0", 'w', 3), ("-t-de", 'v', 4), ("-x", 'p', 1)] {
                        if r > intro.len() {
                            if let Some(es) = fill(r - intro.len(), lead, minc) {
                                if es.is_empty() {
                                    continue;
                                }
                                let mut s = format!("{}{}", prefix, intro);
                                for e in &es {
                                    s.push('-');
                                    s.push_str(e);
                                }
                                debug_assert_eq!(s.len(), len);
                                out.insert(s.into_bytes());
                            }
                        }
                    }
                }
            }
        }
    }
    out.into_iter().collect()
}

/// Call histories of length two for the stateless entry points (space E3.pairs): for every
/// ORDERED pair (x, y) of a menu the checker runs on x and then, in the same thread, on y.  The
/// parsers and queries keep no state, so the order of calls cannot matter -- unless a change adds
/// a memo, a scratch buffer or a thread-local cache; then the answer for y depends on the x
/// before it, which a sweep that visits every input once, in one fixed order, sees only by
/// accident.  The menu is closed under "is a prefix of" (every byte prefix of three identifiers)
/// and contains near-duplicates (same text in another case / separator, one subtag more or less).
pub struct PairSpace {
    pub label: String,
    pub items: Vec<Vec<u8>>,
}
impl Space for PairSpace {
    fn name(&self) -> String {
        self.label.clone()
    }
    fn outer_len(&self) -> u64 {
        (self.items.len() * self.items.len()) as u64
    }
    fn visit(&self, outer: u64, buf: &mut Vec<u8>, f: &mut dyn FnMut(&[u8])) {
        let n = self.items.len() as u64;
        for k in [outer / n, outer % n] {
            buf.clear();
            buf.extend_from_slice(&self.items[k as usize]);
            f(buf);
        }
    }
    fn describe(&self) -> Value {
        json!({"kind": "every ordered pair (x, y) of the menu: the checker runs on x, then on y in the same thread (histories of two calls)", "menu": self.items.len(), "pairs": self.items.len() * self.items.len()})
    }
}

/// Bases of the near-pair histories (space E3.near_pairs): after a call on a base x, the checker
/// runs on every y that differs from x in one byte or in two ADJACENT bytes (over `[a-z0-9-]`).
/// A memo keyed on a weak digest of the text -- a polynomial hash with a small multiplier such as
/// 31, 33 or 37 collides exactly on such pairs: (+1, -31), (+2, -62) -- or on a truncated or
/// sampled part of it, answers y with the result for x.
pub const NEAR_PAIR_BASES: [&str; 10] = ["en-fonipa", "sr-Latn", "an", "ak", "en-US", "zh-Hant-TW", "de-1996", "en-u-ca-buddhist", "und-x-priv", "en-t-de-h0-hybrid"];
pub const NEAR_PAIR_ALPHABET: &[u8] = b"abcdefghijklmnopqrstuvwxyz0123456789-";

pub struct NearPairSpace {
    pub label: String,
}
impl NearPairSpace {
    fn positions() -> Vec<(usize, usize)> {
        let mut v = vec![];
        for (bi, b) in NEAR_PAIR_BASES.iter().enumerate() {
            for p in 0..b.len() {
                v.push((bi, p));
            }
        }
        v
    }
}
impl Space for NearPairSpace {
    fn name(&self) -> String {
        self.label.clone()
    }
    fn outer_len(&self) -> u64 {
        Self::positions().len() as u64
    }
    fn visit(&self, outer: u64, buf: &mut Vec<u8>, f: &mut dyn FnMut(&[u8])) {
        let (bi, p) = Self::positions()[outer as usize];
        let base = NEAR_PAIR_BASES[bi].as_bytes();
        let a = NEAR_PAIR_ALPHABET;
        let mut pair = |y: &[u8], buf: &mut Vec<u8>| {
            buf.clear();
            buf.extend_from_slice(base);
            f(buf);
            buf.clear();
            buf.extend_from_slice(y);
            f(buf);
        };
        // one byte
        for &c in a {
            if c != base[p] {
                let mut y = base.to_vec();
                y[p] = c;
                pair(&y, buf);
            }
        }
        // two adjacent bytes
        if p + 1 < base.len() {
            for &c in a {
                for &d in a {
                    if c != base[p] && d != base[p + 1] {
                        let mut y = base.to_vec();
                        y[p] = c;
                        y[p + 1] = d;
                        pair(&y, buf);
                    }
                }
            }
        }
    }
    fn describe(&self) -> Value {
        json!({"kind": "histories of two calls (x, y) on one thread: x one of the bases, y = x with one byte or two adjacent bytes replaced by every value of [a-z0-9-]", "bases": NEAR_PAIR_BASES.to_vec(), "alphabet": NEAR_PAIR_ALPHABET.len()})
    }
}

pub fn history_menu() -> Vec<Vec<u8>> {
    let mut set = std::collections::BTreeSet::new();
    for b in NEAR_PAIR_BASES {
        set.insert(b.as_bytes().to_vec());
    }
    for base in ["en-Latn-US-valencia-u-ca-buddhist-t-de-h0-hybrid-x-a", "sr-Cyrl-RS-1996-fonipa", "und-419"] {
        for i in 0..=base.len() {
            set.insert(base.as_bytes()[..i].to_vec());
        }
    }
    for w in ["de-AT", "de", "d", "DE_at", "de-at-1996", "en-US", "EN-us", "en_US", "en-GB", "zh-Hant-TW", "zh-TW", "en-u-ca-buddhist", "en-u-ca-gregory", "en-t-de", "en-x-a", "en-x-b", "e", "toolongsubtag", "en-a-foo", "en-US-u-ca-true"] {
        set.insert(w.as_bytes().to_vec());
    }
    set.into_iter().collect()
}

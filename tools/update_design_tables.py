#!/usr/bin/env python3
"""Regenerates the generated tables of DESIGN.md in place (between the <!-- X-begin --> / <!-- X-end --> markers):
   evidence-table (tools/evidence_table.py) and seed-table (tools/seed_table.py)."""
import subprocess, re
p='/verif/DESIGN.md'
s=open(p).read()
for name, cmd in [('evidence-table', ['python3','/verif/tools/evidence_table.py']), ('seed-table', ['python3','/verif/tools/seed_table.py'])]:
    out=subprocess.run(cmd,capture_output=True,text=True).stdout.strip()
    b,e='<!-- %s-begin -->'%name,'<!-- %s-end -->'%name
    if b in s and e in s:
        s=s[:s.index(b)+len(b)]+'\n'+out+'\n'+s[s.index(e):]
    else:
        print('marker missing:',name)
open(p,'w').write(s)
print('DESIGN.md tables updated')

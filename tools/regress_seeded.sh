#!/bin/bash
# tools/regress_seeded.sh [pattern]  -- re-runs every seeded change (seeded/<pattern>*/patch.diff) against the
# checks that reported it when it was recorded (meta.json: check_results with VIOLATION), with the
# current checker.  Prints one line per (seed, check): STILL-REPORTED / NO-LONGER-REPORTED.
cd /verif
for d in seeded/${1:-}*/; do
  n=$(basename $d)
  checks=$(python3 -c "
import json,re,sys
m=json.load(open('$d/meta.json'))
c=[]
for l in m.get('check_results',[]):
    mm=re.match(r'sv_\S+ (C\d+) exit=1 VIOLATION', l)
    if mm and mm.group(1) not in c: c.append(mm.group(1))
print(' '.join(c))")
  [ -z "$checks" ] && { echo "$n NO-RECORDED-CHECK"; continue; }
  out=$(MT_TARGET=/tmp/mt/target-rg tools/mutant.sh rg_$n $d/patch.diff $checks 2>&1 | grep -v "WARNING conda")
  for c in $checks; do
    if echo "$out" | grep -q "rg_$n $c exit=1 VIOLATION"; then echo "$n $c STILL-REPORTED"; else echo "$n $c NO-LONGER-REPORTED: $(echo "$out" | grep "rg_$n $c" | head -1 | cut -c1-200)"; fi
  done
done

#!/usr/bin/env python3
"""Writes /verif/MANIFEST.json from the table below and validates it against the schema."""
import json, sys, os

BUILT = {
 # id: (engine, technique, level text, level note, design ref)
 "C02": ("E1 token tree + E2 skeleton/edit neighbourhoods",
         "bounded-exhaustive enumeration of token sequences and k-edit neighbourhoods, run on the real parser, compared with a reference recogniser",
         "Every input of the stated spaces (all token sequences over the class alphabets to the stated depth; every language-id skeleton, every single edit of it, every separator mask) is executed on the real LanguageIdentifier parser and compared with an independent UTS #35 recogniser: accept/reject, every field, to_string and the error kind. Exhaustive within the bound, nothing sampled.",
         "Trusted: the reference recogniser (DESIGN §3.1) and the argument that the class alphabet covers every distinction the grammar can make (§1.3); inputs longer than the depth bound that are more than k edits from every skeleton are not explored.",
         "DESIGN.md §4 C02"),
 "C03": ("E1 token tree + E2 skeleton/edit neighbourhoods",
         "bounded-exhaustive enumeration of token sequences and k-edit neighbourhoods, run on the real parser, compared with a three-zone reference recogniser",
         "Every input of the stated spaces is classified by the three-zone oracle (must-accept with value / either / must-reject / out of scope) and executed on Locale::from_bytes; values are observed through the public getters and to_string. Exhaustive within the bound; the automaton-coverage guard makes a vacuous run an engine failure.",
         "Trusted: the reference recogniser and its zones (DESIGN §3.1, §6.2, §6.3).",
         "DESIGN.md §4 C03"),
 "C13": ("E1 token tree + E2 skeleton/edit neighbourhoods",
         "bounded-exhaustive differential execution of the two parsers on the same enumerated inputs",
         "Both parsers run on every input of the stated spaces; the superset clause, the prefix clause and the conversion laws are evaluated on every accepted value. Differential, so no oracle is trusted for the first clause.",
         "The prefix clause uses the reference recogniser only to decide which inputs are well-formed locale strings.",
         "DESIGN.md §4 C13"),
}

def main():
    props = [json.loads(l) for l in open('/verif/properties.jsonl')]
    checks, na = [], []
    for p in props:
        pid = p['id']
        if pid in BUILT:
            eng, tech, text, note, ref = BUILT[pid]
            checks.append({
                "property_id": pid,
                "quick_cmd": f"./check {pid} quick",
                "thorough_cmd": f"./check {pid} thorough",
                "evidence_file": f"/verif/evidence/{pid}.json",
                "replay_cmd_template": "./check --replay {path}",
                "engine": eng,
                "level_claimed": {"category": "model_checking", "text": text, "design_ref": ref},
                "level_note": note,
                "technique": tech,
            })
        else:
            na.append({"property_id": pid, "reason": "check not built yet (construction in progress, see DESIGN.md Appendix B); no claim is made for this property at this commit"})
    hooks_commits = []
    hc = '/verif/tools/hook_commits.txt'
    if os.path.exists(hc):
        hooks_commits = [l.strip() for l in open(hc) if l.strip()]
    m = {
        "version": 1,
        "setup_cmd": "./check --setup",
        "hooks": {
            "guard": "--cfg unic_locale_verif",
            "enable": "RUSTFLAGS=\"--cfg unic_locale_verif\" (set by ./check for the mc-full build; own CARGO_TARGET_DIR /verif/work/target-full)",
            "baseline_off_cmd": "cd /repo && cargo test --workspace --no-fail-fast --offline",
            "source_commits": hooks_commits,
            "add_only": True,
        },
        "engines": [
            {"name": "E1", "path": "/verif/mc/mc/src/spaces.rs", "kind_free_text": "depth-bounded exhaustive token-sequence tree over class alphabets (odometer, block scheduler, watchdog)"},
            {"name": "E2", "path": "/verif/mc/mc/src/spaces.rs", "kind_free_text": "deviation-bounded exploration: model-generated skeletons and their complete k-edit neighbourhoods"},
            {"name": "refmodel", "path": "/verif/mc/refmodel/src/lib.rs", "kind_free_text": "reference models (UTS #35 recogniser with zones, value model, likely-subtags dictionary, direction data)"},
        ],
        "checks": checks,
        "not_applicable": na,
        "notes": "All checks: ./check <ID> <quick|thorough>; exit 0 held / 1 violation / 2 build failure / 3 engine failure. See DESIGN.md.",
    }
    for e in m["engines"]:
        e["serves_properties"] = [c["property_id"] for c in checks]
    json.dump(m, open('/verif/MANIFEST.json', 'w'), indent=1)
    try:
        import jsonschema
        jsonschema.validate(m, json.load(open('/root/.vp/MANIFEST.schema.json')))
        print("MANIFEST.json valid;", len(checks), "checks,", len(na), "not_applicable")
    except ImportError:
        print("jsonschema not importable; written without validation")

main()

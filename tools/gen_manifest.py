#!/usr/bin/env python3-vt
"""Writes /verif/MANIFEST.json from the table below and validates it against the schema."""
import json, sys, os

BUILT = {
 # id: (engine, technique, level text, level note, design ref)
 "C02": ("E1 token tree + E2 skeleton/edit neighbourhoods",
         "bounded-exhaustive enumeration of token sequences and k-edit neighbourhoods, run on the real parser, compared with a reference recogniser",
         "Every input of the stated spaces (all token sequences over the class alphabets to the stated depth; every language-id skeleton, every single edit of it, every separator mask) is executed on the real LanguageIdentifier parser and compared with an independent UTS #35 recogniser: accept/reject, every field, to_string and the error kind. Exhaustive within the bound, nothing sampled.",
         "Trusted: the reference recogniser (DESIGN §3.1) and the argument that the class alphabet covers every distinction the grammar can make (§1.3); inputs longer than the depth bound that are more than k edits from every skeleton are not explored.",
         "DESIGN.md §4 C02"),
 "C03": ("E1 token tree + E2 skeleton/edit neighbourhoods + E6 exhaustive schedule exploration (shuttle DFS) of concurrent callers",
         "bounded-exhaustive enumeration of token sequences and k-edit neighbourhoods, run on the real parser, compared with a three-zone reference recogniser; plus stateless model checking of thread interleavings: shuttle's DFS scheduler enumerates every schedule of 2- and 3-thread bodies over a copy of the library whose std::sync/thread/thread_local tokens are rewritten to shuttle's",
         "Every input of the stated spaces is classified by the three-zone oracle (must-accept with value / either / must-reject / out of scope) and executed on Locale::from_bytes; values are observed through the public getters and to_string. Exhaustive within the bound; the automaton-coverage guard makes a vacuous run an engine failure. Concurrent callers: for all ordered pairs (and triples of the first five) of 8-16 operations of the family, every schedule of {warm-up; T1: a || T2: b [|| T3: c]; join; a; b} is enumerated by shuttle's DFS scheduler on a rewritten copy of the two -impl crates (every atomic / lock / thread-local access is a scheduling point); each result must equal the sequential one, which in turn must equal the real library's.",
         "Trusted: the reference recogniser and its zones (DESIGN §3.1, §6.2, §6.3).",
         "DESIGN.md §4 C03"),
 "C13": ("E1 token tree + E2 skeleton/edit neighbourhoods",
         "bounded-exhaustive differential execution of the two parsers on the same enumerated inputs",
         "Both parsers run on every input of the stated spaces; the superset clause, the prefix clause and the conversion laws are evaluated on every accepted value. Differential, so no oracle is trusted for the first clause.",
         "The prefix clause uses the reference recogniser only to decide which inputs are well-formed locale strings.",
         "DESIGN.md §4 C13"),
 "C06": ("E4 complete product enumeration (CLDR universe) + E6 exhaustive schedule exploration (shuttle DFS) of concurrent callers",
         "complete enumeration of all CLDR entries and of the whole L x S x R subtag universe, run on the real lookup, compared with a dictionary reference; plus stateless model checking of thread interleavings: shuttle's DFS scheduler enumerates every schedule of 2- and 3-thread bodies over a copy of the library whose std::sync/thread/thread_local tokens are rewritten to shuttle's",
         "All 8218 CLDR entries and every (language, script, region) triple of the universe of subtags occurring in likelySubtags.json (plus absent and unknown representatives, about 3.1e8 triples) go through likelysubtags::maximize and are compared with a dictionary reference built from the JSON text; the LanguageIdentifier method is compared with the free function on every triple, with variants and extensions on a sub-universe. Every 2-3 letter language, 4-letter script and 2-letter / 3-digit region that the data do not know must behave like the unknown representative (complete subtag domains); every ordered pair of the 8218 keys is run as a two-call history on one thread (state kept between calls). The spaces are finite and enumerated completely. Concurrent callers: for all ordered pairs (and triples of the first five) of 8-16 operations of the family, every schedule of {warm-up; T1: a || T2: b [|| T3: c]; join; a; b} is enumerated by shuttle's DFS scheduler on a rewritten copy of the two -impl crates (every atomic / lock / thread-local access is a scheduling point); each result must equal the sequential one, which in turn must equal the real library's.",
         "Trusted: data/likelySubtags.json as the CLDR source; unknown subtags of one kind behave alike (binary-search miss).",
         "DESIGN.md §4 C06"),
 "C07": ("E4 complete product enumeration (CLDR universe) + E6 exhaustive schedule exploration (shuttle DFS) of concurrent callers",
         "complete enumeration of the L x S x R universe and of a sub-universe x variant lists x extension sets, algebraic laws checked on the real maximize; plus stateless model checking of thread interleavings: shuttle's DFS scheduler enumerates every schedule of 2- and 3-thread bodies over a copy of the library whose std::sync/thread/thread_local tokens are rewritten to shuttle's",
         "Every triple of the universe is maximised and the laws (given subtags kept, all three present, bool result, idempotence, false => unchanged) are evaluated; variants and extensions are checked bit-identical on a sub-universe x 3 variant lists x 4 extension sets through LanguageIdentifier::maximize and Locale.id.maximize. Concurrent callers: for all ordered pairs (and triples of the first five) of 8-16 operations of the family, every schedule of {warm-up; T1: a || T2: b [|| T3: c]; join; a; b} is enumerated by shuttle's DFS scheduler on a rewritten copy of the two -impl crates (every atomic / lock / thread-local access is a scheduling point); each result must equal the sequential one, which in turn must equal the real library's.",
         "No reference data needed (algebraic). Variant/extension independence is explored on the sub-universe only.",
         "DESIGN.md §4 C07"),
 "C08": ("E4 complete product enumeration (CLDR universe) + E6 exhaustive schedule exploration (shuttle DFS) of concurrent callers",
         "complete enumeration of the L x S x R universe, algebraic laws plus dictionary reference for the chosen form, run on the real minimize; plus stateless model checking of thread interleavings: shuttle's DFS scheduler enumerates every schedule of 2- and 3-thread bodies over a copy of the library whose std::sync/thread/thread_local tokens are rewritten to shuttle's",
         "Every triple of the universe is minimised; meaning preservation, subtag containment, no-lengthening, first-of-three choice, min(max(x)) = min(x) at return level, idempotence and false => unchanged are evaluated, and the chosen form is compared with the reference three-trial rule over the dictionary; method vs free function on every triple; variants/extensions (incl. raw-built variant storage) on a sub-universe; complete subtag domains against the unknown representative; two-call histories over keys and values (neighbourhoods in the quick tier, all ordered pairs in the thorough tier). Concurrent callers: for all ordered pairs (and triples of the first five) of 8-16 operations of the family, every schedule of {warm-up; T1: a || T2: b [|| T3: c]; join; a; b} is enumerated by shuttle's DFS scheduler on a rewritten copy of the two -impl crates (every atomic / lock / thread-local access is a scheduling point); each result must equal the sequential one, which in turn must equal the real library's.",
         "C08's law min(max(x)) = min(x) is read at the level of the function result (DESIGN §6.1).",
         "DESIGN.md §4 C08"),
 "C09": ("E1 token tree x transformation group + E2 skeleton group permutations",
         "bounded-exhaustive enumeration of inputs and of all their case/separator/order transformations, metamorphic comparison of the real parser's results",
         "For every input of the token trees, every per-letter case mask (<= 10 letters) or per-token style assignment and every separator mask is generated; for every skeleton every permutation/duplication of each unordered group and both u/t orders. Both members of each pair go through Locale::from_bytes (and LanguageIdentifier::from_bytes) and must both fail or be equal with identical to_string.",
         "No reference model: the pairs are the oracle. Bounded by token depth and group size.",
         "DESIGN.md §4 C09"),
 "C11": ("E4 complete product enumeration (identifier pairs)",
         "complete enumeration of all ordered pairs of per-field sweep families (every CLDR language / script / region plus special codes, all 128 sorted sub-lists of 7 variants) and of a 384-identifier product domain x 4 flag pairs x extension settings, real matches() against the field-wise formula",
         "All 384^2 ordered pairs x 4 flag pairs for LanguageIdentifier::matches and Language::matches, and the same pairs wrapped in Locales with 5x5 extension settings for Locale::matches and AsRef matching, compared with the field-wise formula and the derived laws.",
         "Product domain: 4 languages incl. und x 4 scripts incl. none x 4 regions incl. none x 6 variant lists; per-field families: one field swept, the other three in two fixed contexts (matches is a conjunction of field-wise tests).",
         "DESIGN.md §4 C11"),
 "C14": ("E4 complete product enumeration (CLDR layout locales, universe) in two builds + E6 exhaustive schedule exploration (shuttle DFS) of concurrent callers",
         "complete enumeration of all 710 CLDR layout locales and of the L x S x R universe in builds with and without likelysubtags, compared with a model derived from the layout JSON; plus stateless model checking of thread interleavings: shuttle's DFS scheduler enumerates every schedule of 2- and 3-thread bodies over a copy of the library whose std::sync/thread/thread_local tokens are rewritten to shuttle's",
         "All 710 locales under data/cldr-misc-full/main and all universe triples are run through character_direction in the likelysubtags build and in the feature-less build (a second binary), against directions derived from the layout JSON files; every ordered pair of the 710 locales is run as a two-call history on one thread. Concurrent callers: for all ordered pairs (and triples of the first five) of 8-16 operations of the family, every schedule of {warm-up; T1: a || T2: b [|| T3: c]; join; a; b} is enumerated by shuttle's DFS scheduler on a rewritten copy of the two -impl crates (every atomic / lock / thread-local access is a scheduling point); each result must equal the sequential one, which in turn must equal the real library's.",
         "Trusted: the layout.json files; the base build is a separate binary of the same checker source.",
         "DESIGN.md §4 C14"),
 "C15": ("E4 byte-string products + substitution neighbourhoods",
         "complete enumeration of all byte strings of length <= 3, boundary-class strings to length 9 and all single-byte substitutions of valid subtags, real constructors against the four UTS #35 predicates",
         "Every byte string of length 0-3 (16.8 million), every boundary-alphabet string of length 4-6 and 7-9 (reduced alphabet) and every single-byte substitution of valid subtags goes to the four subtag constructors (from_bytes, FromStr, TryFrom) and is compared with the reference predicates; accepted values are checked for normalised text through as_str/Display/== &str; the raw integer round trip (C17) rides along.",
         "Thorough adds all 2^32 strings of length 4.",
         "DESIGN.md §4 C15"),
 "C18": ("E4 complete enumeration of compiled table entries + generator re-run",
         "complete enumeration of every entry of the compiled tables (read through the cfg hook) against a re-derivation from the CLDR JSON; generators re-run and diffed",
         "Every entry of the six likely-subtags tables and four direction arrays is read from the compiled statics via the cfg(unic_locale_verif) re-export and compared with the JSON-derived dictionary: exactly one entry per key, correct value, strict order in the binary-search key order, well-formed canonical-case subtags, CLDR version; both generator binaries are re-run and their tokenised output compared with the checked-in files.",
         "Trusted: the JSON data files. Needs the add-only hook commit in /repo.",
         "DESIGN.md §4 C18"),
 "C01": ("E1/E2 input spaces x 32 entry points (incl. serde) + E4 argument/triple products + E3 histories, in an isolated child with watchdog + E6 exhaustive schedule exploration (shuttle DFS) of concurrent callers",
         "bounded-exhaustive enumeration of inputs, arguments, triples and mutation histories on the real code; the oracle is 'the call returns' (catch_unwind, per-case watchdog, child exit status); plus stateless model checking of thread interleavings: shuttle's DFS scheduler enumerates every schedule of 2- and 3-thread bodies over a copy of the library whose std::sync/thread/thread_local tokens are rewritten to shuttle's (termination only)",
         "Every input of the E1 token trees and E2 skeleton/edit neighbourhoods goes through every text-accepting entry point of both crates; every byte string of length <= 2 and boundary-class strings to length 9 are the argument of 15 getter/setter functions on three receivers; every (language, script, region) of the CLDR universe goes through maximize, minimize and character_direction; a fixed list of large inputs runs under the 5 s watchdog; every call of the E3 harnesses is guarded. A panic, hang, abort or stack overflow is a violation attributed to the case. Concurrent callers: the same schedule enumeration over the parse / maximize / minimize / direction families in 'total' mode (a panic, deadlock or livelock under some schedule is a violation; values are not compared).",
         "Hang = 5 s of CPU time of the executing thread on one case (or 120 s without CPU use). Inputs longer than the depth bound and more than k edits from every skeleton are outside.",
         "DESIGN.md §4 C01"),
 "C04": ("E1/E2 parse route + E4 from_parts product + E3 mutation histories + E6 schedule exploration of concurrent readers of one value",
         "bounded-exhaustive enumeration of values along three routes (accepted inputs, from_parts product, all reachable states of five mutation harnesses); to_string compared with an independent canonicaliser and re-recognised by an independent strict recogniser",
         "On every accepted input of the input spaces, every element of the from_parts product (24 ids x 781 variant lists x 480 extension shapes) and every state reachable in the E3 harnesses, to_string() must be the model's canonical string, must be accepted by the strict recogniser as its own canonical form, canonicalize must return it and never lengthen the input.",
         "Trusted: reference canonicaliser/recogniser (DESIGN §3). Values outside the harness menus and input bounds are not explored.",
         "DESIGN.md §4 C04"),
 "C05": ("E1/E2 parse route + E4 from_parts product + subtag domains + E3 mutation histories",
         "bounded-exhaustive enumeration of values along three routes plus complete subtag domains; parse(to_string(x)) == x with the library's own equality (no reference model)",
         "Every accepted input (Locale, LanguageIdentifier, ExtensionsMap), every from_parts product value, every E3 state, every Script (26^4 x 16 case masks), every Region, every 2-3 letter Language and reduced-alphabet longer subtags are serialised and re-parsed; the result must equal the original; canonicalize must be idempotent.",
         "ExtensionsMap::other left empty as the property states.",
         "DESIGN.md §4 C05"),
 "C10": ("E3 explicit-state exploration of mutation histories (own BFS, cross-counted with stateright) + E4 argument sweep + E6 exhaustive schedule exploration (shuttle DFS) of concurrent mutator histories on private values",
         "explicit-state model checking: breadth-first exploration to exhaustion of all states reachable through the public mutators (finite argument menus with valid/boundary/invalid arguments), real value and set/map reference model in lock-step, invariants on every state and every transition; plus stateless model checking of thread interleavings (shuttle DFS over a copy of the library with std::sync rewritten) for 8 mutator histories run concurrently on private values",
         "Five harnesses (language-id fields, -u-, -t-, -x-, and a cross harness with conversions and whole-field assignment) are explored to exhaustion from default() and from parser-built values; de-duplication on full equality of (implementation value, model value); after every call the result and the no-change-on-Err rule, in every state all getters, is_empty, has_*, to_string and a re-parse are compared with the model. The unique-state count is cross-checked against stateright's BFS over the same transition function. Argument validation and normalisation is additionally checked byte-exhaustively (every string of length <= 2, boundary-class strings to length 9) for 15 functions.",
         "Trusted: the set/map reference model (DESIGN §3.2). Lists longer than the menus and more private tags than the cap are outside the bound.",
         "DESIGN.md §4 C10"),
 "C12": ("E3 route-independence table + E4 complete pair/triple enumeration over a value set collected from three routes + E6 schedule exploration of concurrent readers of one value",
         "explicit-state exploration for route independence (one model value <-> one representation), then complete enumeration of ordered pairs and triples of a stratified value set for ==/hash/cmp/&str laws",
         "All states of the E3 harnesses, accepted inputs of the token tree to depth 3 and a stride of the from_parts product form the value set R. Reaching one model value with two different representations (within a search or across routes) is a violation. On all ordered pairs of a stratified subset: == iff equal to_string, equal => equal hash and Ordering::Equal, antisymmetry, id order = (language, script, region, variants) with absent first, == &str iff canonical text; transitivity on all ordered triples of a 200-value subset; subtag == &str against all subtag texts of R.",
         "Fixed hasher: DefaultHasher::new(). ExtensionsMap::other left empty.",
         "DESIGN.md §4 C12"),
 "C17": ("E1/E2 parse route + E4 from_parts product + byte-string subtag spaces + E3 mutation histories",
         "bounded-exhaustive enumeration of values along three routes for from_parts(into_parts(x)) == x, complete subtag byte-string spaces for the integer round trip, sorting-based injectivity over complete subtag domains",
         "from_parts(into_parts(x)) == x on every accepted input, every from_parts product value (where it must also equal parsing the joined string for every order/duplication of up to 4 variants) and every E3 state; integer form -> from_raw_unchecked -> equal subtag with intact text on every valid subtag of the C15 spaces; distinct subtags <-> distinct integers on all 2-3 letter languages, all scripts, all regions, all 4-character variants and reduced-alphabet longer ones.",
         "from_raw_unchecked is used only on integers obtained from real subtags (DESIGN §6.4).",
         "DESIGN.md §4 C17"),
 "C16": ("E5 enumeration of generated programs (macro invocations), compiled with cargo from the working tree",
         "bounded-exhaustive enumeration of (macro, literal) invocations as generated programs: compiler diagnostics attributed per invocation line, run-time comparison of every expansion with parsing",
         "A literal universe (token sequences over a 15-token alphabet, skeleton families with every extension shape, every language-id skeleton in three renderings, all single tokens of the class alphabet, one-edit neighbours) is classified per macro by the reference recognisers; every well-formed invocation is compiled, bound with let and compared (== and Debug text) with run-time parsing under catch_unwind, list macros over chunks; for every ill-formed invocation the compiler's error back-trace must end at that invocation line. A well-formed line that does not compile is reported and removed, then the rest is rebuilt and run.",
         "Trusted: reference recognisers; rustc's JSON diagnostics. Non-UTF-8 literals cannot be written; const-context use is outside (DESIGN §4 C16).",
         "DESIGN.md §4 C16"),
 "C19": ("E1/E2 input spaces through serde_json (two encodings, four entry points) + fixed list of non-string documents + E3 H-id values",
         "bounded-exhaustive enumeration of C02's input spaces, each input deserialised through several serde_json paths and compared with FromStr; every accepted value serialised and compared with its canonical string",
         "Every UTF-8 input of the token trees and language-id skeleton neighbourhoods is JSON-encoded twice (minimal escapes; every UTF-16 unit as \\uXXXX) and deserialised via from_str, from_slice, from_reader and from_value: Ok(v) iff FromStr gives Ok(v). Accepted values serialise (to_string, to_vec, to_value) to exactly the quoted canonical string and deserialise back. Non-UTF-8 inputs, a fixed list of non-string documents (incl. deeply nested ones) and non-string Values must give Err, never a panic. Every LanguageIdentifier reachable in the E3 H-id harness is round-tripped.",
         "serde_json is the only self-describing format available offline (text and Value paths).",
         "DESIGN.md §4 C19"),
 "C20": ("E5 enumeration of feature configurations: one transcript program built per feature set and run on the same enumerated corpus",
         "exhaustive enumeration of feature sets (thorough: all 32 combinations + binary), each executing the same bounded-exhaustive corpus; per-chunk transcript digests compared across configurations",
         "The transcript program (parsing of every token sequence to the stated depth through both parsers and canonicalize, ordering and &str equality of all accepted values, matches() on all pairs of a 384-identifier domain, every sequence of up to three of 24 mutator calls) is built against the working tree once per feature set; digests of every 1000-line chunk must be identical in all configurations, and character_direction may differ only across the likely-subtags setting and only on script-less identifiers. A differing chunk is re-run to show the first differing line.",
         "64-bit FNV digests per chunk; the transcript covers the feature-independent API only (extra APIs are by definition not comparable).",
         "DESIGN.md §4 C20"),
}

COUNT_TXT = " Count ladder (DESIGN 0.8): every list position of the grammar at every element count 0..40 [72] in the orders ascending / descending / every rotation / a fixed scramble and with one repeat at every pair of positions, as text (space E2.count)"
HCOUNT_TXT = " and through the typed API (H-count: whole-list calls and element-by-element linear histories of up to 3n calls, every intermediate state checked with the E3 per-state invariants against the reference model)."
EXTRA_TEXT = {
 "C01": COUNT_TXT + HCOUNT_TXT + " serde Deserialize (str, String, JSON) and Serialize are among the entry points. A hang is decided on the CPU time of the executing thread (5 s), or 120 s of wall-clock time without CPU use (blocked).",
 "C02": COUNT_TXT + " (variants), wide counts (2^k-1, 2^k, 2^k+1 elements up to 1024 [65536]; variant lists followed by a script / region), near-pair histories (after x, every y that differs from x in one byte or two adjacent bytes).",
 "C06": " Every CLDR key is also parsed from its UPPER/'_', capitalised and lower-case spelling and maximized.",
 "C07": " The same laws on the complete subtag domains: every 2- and 3-letter language, every 4-letter script [quick: a stride], every region, each in 42 contexts of the other two subtags.",
 "C11": " Long variant lists that differ in one position / in length only (count ladder), and the product domain with the operands reached along other routes (parsed from UPPER case with '_', variants set and emptied, clone_from, field assignment).",
 "C16": " The count ladder among the literals (every list position, n = 0..34 [72]); one program using all nine macros built with the dependency-named features of the facade crates.",
 "C20": " The count ladder is part of the corpus.",
 "C03": COUNT_TXT + "; wide counts; near-pair histories; all 256 byte values at every byte position of a reduced skeleton set.",
 "C04": COUNT_TXT + HCOUNT_TXT + " Values whose public field ExtensionsMap::other has been assigned (6 bases x every one and two of the 33 singletons): the text must be the text without them or the text in canonical singleton order.",
 "C05": COUNT_TXT + HCOUNT_TXT,
 "C09": " Count pairs (DESIGN 0.8): for the five list positions with set semantics and every n <= 40 [72] the list in every order shape and with one repeat against the same list in ascending order.",
 "C10": " Clone::clone_from (locale, id, extensions) and mem::take are among the actions; every iterator-returning getter must answer len / size_hint / count / last / nth / fold / skip / step_by like the model's sequence. H-count (DESIGN 0.8): every list dimension at every element count 0..40 [72] in every order shape: whole-list calls and element-by-element linear histories of up to 3n calls with has_* probes over the whole alphabet, every intermediate state checked.",
 "C12": COUNT_TXT + HCOUNT_TXT,
 "C13": COUNT_TXT + HCOUNT_TXT,
 "C14": " Every real-world variant word (217 registered variants) alone and beside another variant on every language listed right-to-left or multi-direction x scripts x regions. The 710 layout locales also through the facade crates built with likely-subtags requested through one facade only (Cargo feature forwarding is part of the configuration). The complete script domain (all 26^4 scripts with languages never listed right-to-left); two-call histories over a 243-identifier product domain in which any two identifiers share a language, a script or a region.",
 "C17": COUNT_TXT + HCOUNT_TXT + " from_parts on every list of the ladder is compared with parsing the joined text.",
 "C19": COUNT_TXT + " (variants). Histories on the serde entry points: Deserialize::deserialize_in_place over every (old value, new text) pair of a menu (also inside a Vec), and a serialisation into a writer that refuses followed by a serialisation of another value.",
}

def main():
    props = [json.loads(l) for l in open('/verif/properties.jsonl')]
    checks, na = [], []
    for p in props:
        pid = p['id']
        if pid in BUILT:
            eng, tech, text, note, ref = BUILT[pid]
            text = text + EXTRA_TEXT.get(pid, "")
            checks.append({
                "property_id": pid,
                "quick_cmd": f"./check {pid} quick",
                "thorough_cmd": f"./check {pid} thorough",
                "evidence_file": f"/verif/evidence/{pid}.json",
                "replay_cmd_template": "./check --replay {path}",
                "engine": eng,
                "level_claimed": {"category": "model_checking", "text": text, "design_ref": ref},
                "level_note": note,
                "technique": tech,
            })
        else:
            na.append({"property_id": pid, "reason": "check not built yet (construction in progress, see DESIGN.md Appendix B); no claim is made for this property at this commit"})
    hooks_commits = []
    hc = '/verif/tools/hook_commits.txt'
    if os.path.exists(hc):
        hooks_commits = [l.strip() for l in open(hc) if l.strip()]
    m = {
        "version": 1,
        "setup_cmd": "./check --setup",
        "hooks": {
            "guard": "--cfg unic_locale_verif",
            "enable": "RUSTFLAGS=\"--cfg unic_locale_verif\" (set by ./check for the mc-full build; own CARGO_TARGET_DIR /verif/work/target-full)",
            "baseline_off_cmd": "cd /repo && cargo test --workspace --no-fail-fast --offline",
            "source_commits": hooks_commits,
            "add_only": True,
        },
        "engines": [
            {"name": "E1", "path": "/verif/mc/mc/src/spaces.rs", "kind_free_text": "depth-bounded exhaustive token-sequence tree over class alphabets (odometer, block scheduler, watchdog)"},
            {"name": "E2", "path": "/verif/mc/mc/src/spaces.rs", "kind_free_text": "deviation-bounded exploration: model-generated skeletons and their complete k-edit neighbourhoods"},
            {"name": "E3", "path": "/verif/mc/mc/src/props/history.rs", "kind_free_text": "explicit-state exploration of mutation histories: level-synchronised BFS to exhaustion over (real value, model value) pairs, exact de-duplication, route-independence table; unique-state count cross-checked with stateright 0.31 spawn_bfs"},
            {"name": "E4", "path": "/verif/mc/mc/src/props/", "kind_free_text": "complete enumeration of finite product domains (CLDR universe, table entries, byte-string products, identifier pairs, from_parts product)"},
            {"name": "E5", "path": "/verif/mc/mc/src/props/macros.rs", "kind_free_text": "enumeration of programs and configurations: generated crates of macro invocations (C16), transcript program built per feature set (C20)"},
            {"name": "E6", "path": "/verif/mc/mc/src/props/conc.rs", "kind_free_text": "stateless model checking of thread interleavings: shuttle 0.9.3 DfsScheduler (exhaustive) over small multi-thread bodies calling the library's query functions, on a copy of the -impl crates with std::sync / std::thread / thread_local! rewritten to shuttle's; sequential results bound to the real library; harness source /verif/mc/conc/main.rs"},
            {"name": "refmodel", "path": "/verif/mc/refmodel/src/lib.rs", "kind_free_text": "reference models (UTS #35 recogniser with zones, value model, likely-subtags dictionary, direction data)"},
        ],
        "checks": checks,
        "not_applicable": na,
        "notes": "All checks: ./check <ID> <quick|thorough>; exit 0 held / 1 violation / 2 build failure / 3 engine failure. See DESIGN.md.",
    }
    for e in m["engines"]:
        e["serves_properties"] = ["C01", "C03", "C04", "C06", "C07", "C08", "C10", "C12", "C14"] if e["name"] == "E6" else [c["property_id"] for c in checks]
    json.dump(m, open('/verif/MANIFEST.json', 'w'), indent=1)
    try:
        import jsonschema
        jsonschema.validate(m, json.load(open('/root/.vp/MANIFEST.schema.json')))
        print("MANIFEST.json valid;", len(checks), "checks,", len(na), "not_applicable")
    except ImportError:
        print("jsonschema not importable; written without validation")

main()

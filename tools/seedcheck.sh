#!/bin/bash
# tools/seedcheck.sh <ID> <a|b> [<check IDs>...]
# Confirms a sub-agent's seeded change (/tmp/seed/<ID>/out/<v>/{patch.diff,demo.rs,meta.json}) in a
# fresh scratch worktree: demo passes on the clean tree, fails with the patch; the repository's whole
# suite passes with the patch (demo removed).  Then runs the named checks (default: <ID>) against the
# patched worktree.  On success the change is copied to /verif/seeded/<ID><v>/ with a results line.
set -u
id=$1; v=$2; shift 2
checks=${*:-$id}
# SEED_OUT=out2 selects the second (adversarial) round: deliverables under /tmp/seed/<ID>/out2, names <ID><v>2
src=/tmp/seed/$id/${SEED_OUT:-out}/$v
suffix=$(echo "${SEED_OUT:-out}" | sed 's/^out//')
name=${id}${v}${suffix}
root=/tmp/sv/$name
[ -f $src/patch.diff ] && [ -f $src/demo.rs ] && [ -f $src/meta.json ] || { echo "$name MISSING-DELIVERABLES"; exit 2; }
rm -rf $root; mkdir -p $root
base=HEAD
git -C /repo apply --check $src/patch.diff 2>/dev/null || base=${SEED_BASE:-d08ca43}
git -C /repo worktree add --detach -q $root/repo $base || exit 2
cp /repo/Cargo.lock $root/repo/Cargo.lock
export CARGO_NET_OFFLINE=true CARGO_TERM_COLOR=never CARGO_TARGET_DIR=/tmp/sv/target-$id
SV_MT=${SV_MT_TARGET:-/tmp/mt/target-sv}
demo_path=$(python3 -c "import json;print(json.load(open('$src/meta.json'))['demo_path'])")
demo_cmd=$(python3 -c "
import json,re
c=json.load(open('$src/meta.json'))['demo_cmd']
c=re.sub(r'\s+\(.*$','',c); c=re.sub(r'cd\s+\S+\s*&&\s*','',c); c=re.sub(r'CARGO_TARGET_DIR=\S+\s*','',c); c=re.sub(r'CARGO_NET_OFFLINE=\S+\s*','',c)
print(c)")
mkdir -p $root/repo/$(dirname $demo_path); cp $src/demo.rs $root/repo/$demo_path
( cd $root/repo && eval "$demo_cmd" ) > $root/demo_clean.log 2>&1; clean=$?
( cd $root/repo && git apply $src/patch.diff ) || { echo "$name PATCH-DOES-NOT-APPLY"; git -C /repo worktree remove --force $root/repo; exit 2; }
( cd $root/repo && eval "$demo_cmd" ) > $root/demo_patched.log 2>&1; patched=$?
rm -f $root/repo/$demo_path
( cd $root/repo && cargo test --workspace --no-fail-fast --offline ) > $root/suite.log 2>&1; suite=$?
nok=$(grep -c '^test .* ok$' $root/suite.log); nfail=$(grep -c '^test .* FAILED$' $root/suite.log)
echo "$name demo_on_clean_tree=$([ $clean = 0 ] && echo PASS || echo FAIL) demo_with_patch=$([ $patched = 0 ] && echo PASS || echo FAIL) suite_with_patch: exit=$suite ok=$nok failed=$nfail"
( cd $root/repo && git diff ) > $root/applied.diff
git -C /repo worktree remove --force $root/repo
verdict="unconfirmed"
if [ $clean = 0 ] && [ $patched != 0 ] && [ $suite = 0 ] && [ $nfail = 0 ]; then verdict="confirmed"; fi
echo "$name $verdict"
export SEED_BASE_USED=$(git -C /repo rev-parse --short $base)
res=$(MT_BASE=$SEED_BASE_USED MT_TARGET=$SV_MT /verif/tools/mutant.sh sv_$name $src/patch.diff $checks 2>&1 | grep -v "WARNING conda")
echo "$res"
if [ "$verdict" = confirmed ]; then
  d=/verif/seeded/$name; mkdir -p $d
  cp $src/patch.diff $d/patch.diff; cp $src/demo.rs $d/demo.rs
  python3 - "$src/meta.json" "$d/meta.json" "$name" "$checks" "$res" <<'PY'
import json,sys,os
m=json.load(open(sys.argv[1]))
m['seed_id']=sys.argv[3]
m['round']=int(sys.argv[3][-1]) if sys.argv[3][-1].isdigit() else 1
if m['round']==7: m['round_note']='seventh round: the sub-agent was told that the checker is thorough about single sites (inputs of every size, every table row, trait impl, iterator method, call pairs, short histories, feature combinations) and was asked for two cooperating sites that each look fine alone, or an internal-representation invariant that only a specific history breaks and only a specific later call observes'
elif m['round']==6: m['round_note']='sixth round: the prompt of the fifth round given to fresh sub-agents after the count ladder, the iterator laws, clone_from, the facade configurations etc. had been built -- an independent sample of the same kind of change'
elif m['round']==5: m['round_note']='fifth round: as the fourth, and the sub-agent was asked to make the change depend on something larger or rarer than short inputs, single/double edits, table rows, call pairs and short histories: count thresholds, histories of three or four specific calls, iterator methods other than next(), specific pairs of table rows, combinations of three or more subtags, facade feature forwarding, Debug/Default/Clone/Hash/Borrow/AsRef'
elif m['round']==4: m['round_note']='fourth round: as the third, and the sub-agent was asked to put the change at a less obvious site (trait impls, constructors/destructors, rarely used getters and mutators, the facade and macro crates, the generator binaries, feature-gated code) and to make it depend on a specific relation between values or calls'
elif m['round']==3: m['round_note']='third round: the sub-agent was given the property text and a scratch worktree, was told that a bounded-exhaustive checker with a reference model exists (nothing about its spaces), and was asked for a change needing a specific multi-step history, unusual input, rarely used entry point or two cooperating sites'
elif m['round']==2: m['round_note']='second round: the sub-agent was additionally told that the tool enumerates small scopes exhaustively and was asked for defects likely to escape small-scope enumeration'
else: m['round_note']='first round: the sub-agent was given only the text of the property and a scratch worktree' 
m['confirmed']={'demo_on_clean_tree':'passes','demo_with_patch':'fails','repository_suite_with_patch':'passes (cargo test --workspace --no-fail-fast --offline)','how':'tools/seedcheck.sh in a scratch worktree of /repo'}
m['base_commit']=os.environ.get('SEED_BASE_USED','') or m.get('base_commit') or 'HEAD at the time (see git log of /verif)'
m['checker_commit']=os.popen('git -C /verif rev-parse --short HEAD').read().strip()
m['checks_run']=sys.argv[4].split()
m['check_results']=[l for l in sys.argv[5].splitlines() if l.strip()]
import os
if os.environ.get('SEED_HISTORY'): m['history']=os.environ['SEED_HISTORY']
if os.environ.get('SEED_ACTUAL'): m['actually_breaks']=os.environ['SEED_ACTUAL']
json.dump(m,open(sys.argv[2],'w'),indent=1)
PY
fi
rm -rf $root

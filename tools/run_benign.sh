#!/bin/bash
# tools/run_benign.sh [pattern]  -- false-alarm regression: every benign/<name>.diff is a realistic change
# to the library that breaks NO property (stricter or more lenient exactly where a property says
# "may", new functionality a property allows, refactorings, correctly used shared state).  Each is
# applied to a scratch worktree (tools/mutant.sh; never to /repo) and the checks listed in
# benign/<name>.checks (default: all twenty) are run against it.  Every check must exit 0.
# Prints one line per (change, check): SILENT / ALARM.
cd /verif
all=$(python3 -c "import json;print(' '.join(c['property_id'] for c in json.load(open('MANIFEST.json'))['checks']))")
rc=0
for f in benign/${1:-}*.diff; do
  n=$(basename $f .diff)
  checks=$all; [ -f benign/$n.checks ] && [ "${BENIGN_ALL:-0}" != 1 ] && checks=$(cat benign/$n.checks)
  out=$(MT_TARGET=${BN_TARGET:-/tmp/mt/target-bn} BASELINE=1 tools/mutant.sh bn_$n $f $checks 2>&1 | grep -v "WARNING conda")
  echo "$out" | grep -E "baseline|BUILD-FAILS|PATCH-DOES-NOT-APPLY"
  for c in $checks; do
    l=$(echo "$out" | grep "^bn_$n $c exit=" | head -1)
    if echo "$l" | grep -q "exit=0 HELD"; then echo "$n $c SILENT"; else echo "$n $c ALARM: $(echo "$l" | cut -c1-240)"; echo "$out" | grep -A1 "^bn_$n $c exit=" | tail -1 | cut -c1-300; rc=1; fi
  done
done
exit $rc

#!/bin/bash
# tools/run_all.sh [quick|thorough]  — runs every registered check in turn, prints one line each
tier=${1:-quick}
cd /verif
for id in $(python3 -c "import json;print(' '.join(c['property_id'] for c in json.load(open('MANIFEST.json'))['checks']))"); do
  s=$(date +%s.%N)
  out=$(./check $id $tier 2>/tmp/run_all_err.$$); code=$?
  e=$(date +%s.%N)
  printf "%s exit=%d %.1fs %s\n" $id $code $(echo "$e - $s" | bc) "$(echo "$out" | tail -1)"
  [ $code -ne 0 ] && tail -5 /tmp/run_all_err.$$
done
rm -f /tmp/run_all_err.$$

#!/usr/bin/env python3
"""Prints the markdown table of the seeded changes (DESIGN §0.6) from /verif/seeded/*/meta.json."""
import json, glob, os, re
def short(s, n):
    s = re.sub(r'\s+', ' ', s).strip()
    return s if len(s) <= n else s[:n-1] + '…'
print('| seed | round | what was changed (sub-agent\'s words, shortened) | reported by | first sub-check that fired | note |')
print('|------|-------|--------------------------------------------------|-------------|----------------------------|------|')
for d in sorted(glob.glob('/verif/seeded/*')):
    m = json.load(open(d + '/meta.json'))
    name = os.path.basename(d)
    res = [l for l in m.get('check_results', [])]
    rep = []; sub = ''
    for l in res:
        mm = re.match(r'sv_\S+ (C\d+) exit=(\d+) (\S+)', l)
        if mm: rep.append(f"{mm.group(1)}: {'VIOLATION' if mm.group(3)=='VIOLATION' else mm.group(3)}")
        mm = re.match(r'\s+\[([a-z0-9_.]+)\]', l)
        if mm and not sub: sub = mm.group(1)
    h = m.get('history','')
    note = 'strengthened after a miss' if ('first run' in h and ('missed' in h or 'HELD' in h or 'ENGINE-FAILURE' in h)) else ('strengthened before the run' if h else '')
    if m.get('actually_breaks'): note += ('; ' if note else '') + 'breaks ' + m['actually_breaks'].split(' ')[0] + ', not ' + m.get('property','')
    print(f"| {name} | {m.get('round',1)} | {short(m.get('summary',''), 150)} | {', '.join(rep)} | {sub} | {note} |")

#!/usr/bin/env python3
"""Writes /verif/mutants/<name>.diff for each hand-made mutation below (DESIGN §9): a textual
replacement made in a scratch worktree of /repo, captured with git diff."""
import subprocess, sys, os
L='unic-langid-impl/src/'; X='unic-locale-impl/src/extensions/'; LO='unic-locale-impl/src/'
M = [
 # name, file, old, new
 ("c01_unwrap_key", X+'unicode.rs', "let key = TinyStr4::from_bytes(key).map_err(|_| ParserError::InvalidSubtag)?;\n    Ok(key.to_ascii_lowercase())\n}\n\nconst TRUE_TYPE", "let key = TinyStr4::from_bytes(key).unwrap();\n    Ok(key.to_ascii_lowercase())\n}\n\nconst TRUE_TYPE"),
 ("c01_unwrap_private", X+'private.rs', "let s = TinyStr8::from_bytes(t).map_err(|_| ParserError::InvalidSubtag)?;", "let s = TinyStr8::from_bytes(t).unwrap();"),
 ("c02_lang_len4", L+'subtags/language.rs', "if !(2..=8).contains(&slen) || slen == 4 || !s.is_ascii_alphabetic() {", "if !(2..=8).contains(&slen) || !s.is_ascii_alphabetic() {"),

 ("c02_no_dedup", L+'parser/mod.rs', "        variants.dedup();\n", ""),
 ("c03_repeat_u", X+'mod.rs', "                    if seen_unicode {\n                        return Err(ParserError::InvalidExtension);\n                    }\n", ""),
 ("c03_multichar_singleton", X+'mod.rs', "            if subtag.len() > 1 {\n                // A singleton is exactly one character long.\n                return Err(ParserError::InvalidExtension);\n            }\n", ""),
 ("c04_u_before_t", X+'mod.rs', 'write!(f, "{}{}{}", self.transform, self.unicode, self.private)?;', 'write!(f, "{}{}{}", self.unicode, self.transform, self.private)?;'),
 ("c04_set_variants_nosort", L+'lib.rs', "            v.sort_unstable();\n            v.dedup();\n            self.variants = Some(v.into_boxed_slice());", "            v.dedup();\n            self.variants = Some(v.into_boxed_slice());"),
 ("c05_tfield_eats_singleton", X+'transform.rs', "            } else if slen == 1 {\n                // The next singleton ends the transform extension.\n                break;\n", ""),
 ("c07_or_else_swapped", L+'likelysubtags/mod.rs', "    let region = region.or_else(|| input.2.map(|r| subtags::Region::from_raw_unchecked(r)));", "    let region = input.2.map(|r| subtags::Region::from_raw_unchecked(r)).or(region);"),
 ("c06_lang_only_before_pairs", L+'likelysubtags/mod.rs', "    if let Some(l) = Into::<Option<u64>>::into(lang) {\n        if let Some(r) = region {", "    if let Some(l) = Into::<Option<u64>>::into(lang) {\n        if let (Some(_), None, Ok(i)) = (region, script, tables::LANG_ONLY.binary_search_by_key(&(&l), |(key_l, _)| key_l)) {\n            if l > 0xffff {\n                return unsafe { lang_from_parts(tables::LANG_ONLY[i].1, None, script, region) };\n            }\n        }\n        if let Some(r) = region {"),
 ("c06_early_return_or", L+'likelysubtags/mod.rs', "    if !lang.is_empty() && script.is_some() && region.is_some() {\n        return None;\n    }\n\n    if let Some(l)", "    if !lang.is_empty() && (script.is_some() || region.is_some()) {\n        return None;\n    }\n\n    if let Some(l)"),
 ("c08_no_equality_test", L+'likelysubtags/mod.rs', "    if max_langid.2.is_some() {\n        if let Some(trial) = maximize(max_langid.0, None, max_langid.2) {\n            if trial == max_langid {", "    if max_langid.2.is_some() {\n        if let Some(trial) = maximize(max_langid.0, None, max_langid.2) {\n            if trial.0 == max_langid.0 && trial.2 == max_langid.2 {"),
 ("c08_region_trial_keeps_script", L+'likelysubtags/mod.rs', "                return Some((max_langid.0, None, max_langid.2));", "                return Some((max_langid.0, script, max_langid.2));"),
 ("c14_ttb_ignored_with_region", L+'lib.rs', "            (_, Some(script))\n                if layout_table::SCRIPTS_CHARACTER_DIRECTION_TTB.contains(&script.into()) =>", "            (_, Some(script))\n                if self.region.is_none() && layout_table::SCRIPTS_CHARACTER_DIRECTION_TTB.contains(&script.into()) =>"),
 ("c14_swap_script_tables", L+'layout_table.rs', "    [1650553409, 1734897490, 1835820097, 1869572942];", "    [1650553409, 1734897490, 1835820097, 1869572943];"),
 ("c18_swap_rows", L+'likelysubtags/tables.rs', "    (25703, (Some(25703), Some(1853120844), Some(16967))),\n    (25705, (Some(25705), Some(1853120844), Some(17481))),\n", "    (25705, (Some(25705), Some(1853120844), Some(17481))),\n    (25703, (Some(25703), Some(1853120844), Some(16967))),\n"),
 ("c18_digit_changed", L+'likelysubtags/tables.rs', "    (25966, (Some(25966), Some(1635149124), Some(20558))),", "    (25966, (Some(25966), Some(1635149124), Some(20559))),"),
 ("c09_attr_no_lowercase", X+'unicode.rs', "    Ok(s.to_ascii_lowercase())\n}\n\nfn is_type", "    Ok(s)\n}\n\nfn is_type"),
 ("c09_attr_no_sort", X+'unicode.rs', "        uext.attributes.sort_unstable();\n", ""),
 ("c10_set_attr_push", X+'unicode.rs', "        if let Err(idx) = self.attributes.binary_search(&attribute) {\n            self.attributes.insert(idx, attribute);\n        }", "        if !self.attributes.contains(&attribute) {\n            self.attributes.push(attribute);\n        }"),
 ("c10_add_tag_nosort", X+'private.rs', "        self.0.push(parse_value(tag.as_ref())?);\n        self.0.sort_unstable();", "        self.0.push(parse_value(tag.as_ref())?);"),
 ("c10_set_keyword_insert_first", X+'unicode.rs', "        let key = parse_key(key.as_ref())?;\n\n        let t = value", "        let key = parse_key(key.as_ref())?;\n        self.keywords.insert(key, vec![]);\n\n        let t = value"),
 ("c11_or_region_variants", L+'lib.rs', "            && subtag_matches(&self.region, &other.region, self_as_range, other_as_range)\n            && subtags_match(\n                &self.variants,\n                &other.variants,\n                self_as_range,\n                other_as_range,\n            )", "            && (subtag_matches(&self.region, &other.region, self_as_range, other_as_range)\n            || subtags_match(\n                &self.variants,\n                &other.variants,\n                self_as_range,\n                other_as_range,\n            ))"),
 ("c11_locale_ignores_private", LO+'lib.rs', "        if !self.extensions.private.is_empty() || !other.extensions.private.is_empty() {\n            return false;\n        }\n", ""),
 ("c12_empty_variants_some", L+'lib.rs', "        if v.is_empty() {\n            self.variants = None;\n        } else {", "        if false {\n            self.variants = None;\n        } else {"),
 ("c12_eq_str_case_insensitive", L+'lib.rs', "        self.to_string().as_str() == *other", "        self.to_string().eq_ignore_ascii_case(other)"),
 ("c13_locale_split_dash_only", LO+'parser/mod.rs', "    let mut iter = t.as_ref().split(|c| *c == b'-' || *c == b'_').peekable();", "    let mut iter = t.as_ref().split(|c| *c == b'-').peekable();"),
 ("c15_region_3_alnum", L+'subtags/region.rs', "                if !s.is_ascii_numeric() {", "                if !s.is_ascii_alphanumeric() || s.is_ascii_alphabetic() {"),
 ("c17_into_parts_swap", LO+'lib.rs', "        (lang, region, script, variants, self.extensions.to_string())", "        (lang, region, None, variants, self.extensions.to_string())"),
 ("c17_script_into_be", L+'subtags/script.rs', "impl From<Script> for u32 {\n    fn from(input: Script) -> Self {\n        u32::from_le_bytes(*input.0.all_bytes())", "impl From<Script> for u32 {\n    fn from(input: Script) -> Self {\n        u32::from_be_bytes(*input.0.all_bytes())"),
 ("c16_lang_und_none", 'unic-langid-macros-impl/src/lib.rs', "        quote!($crate::subtags::Language::default())\n    };\n\n    TokenStream::from(quote! {\n        #lang\n    })", "        quote!(None)\n    };\n\n    TokenStream::from(quote! {\n        #lang\n    })"),
 ("c16_langid_variants_unsorted", 'unic-langid-macros-impl/src/lib.rs', "    let (lang, script, region, variants) = parsed.into_parts();\n\n    let lang: Option<u64> = lang.into();\n    let lang = if let Some(lang) = lang {\n        quote!(unsafe { $crate::subtags::Language::from_raw_unchecked(#lang) })\n    } else {\n        quote!($crate::subtags::Language::default())\n    };\n\n    let script", "    let (lang, script, region, mut variants) = parsed.into_parts();\n    variants.reverse();\n\n    let lang: Option<u64> = lang.into();\n    let lang = if let Some(lang) = lang {\n        quote!(unsafe { $crate::subtags::Language::from_raw_unchecked(#lang) })\n    } else {\n        quote!($crate::subtags::Language::default())\n    };\n\n    let script"),
 ("c20_serde_changes_display", L+'lib.rs', "        if let Some(ref region) = self.region {\n            f.write_char('-')?;", "        if let Some(ref region) = self.region {\n            #[cfg(feature = \"serde\")]\n            f.write_char('_')?;\n            #[cfg(not(feature = \"serde\"))]\n            f.write_char('-')?;"),
 ("c20_likely_skips_dedup", L+'lib.rs', "            v.sort_unstable();\n            v.dedup();\n            self.variants = Some(v.into_boxed_slice());", "            v.sort_unstable();\n            #[cfg(not(feature = \"likelysubtags\"))]\n            v.dedup();\n            self.variants = Some(v.into_boxed_slice());"),
 ("c19_serialize_debug", L+'serde.rs', "serializer.serialize_str(&self.to_string())", "serializer.serialize_str(&format!(\"{:?}\", self.to_string()))"),
 ("c19_deserialize_lowercase", L+'serde.rs', "                s.parse::<LanguageIdentifier>()", "                s.to_lowercase().replace(' ', \"\").parse::<LanguageIdentifier>()"),
]
def main():
    wt='/tmp/mk/repo'
    subprocess.run(['rm','-rf','/tmp/mk']); os.makedirs('/tmp/mk')
    subprocess.check_call(['git','-C','/repo','worktree','add','--detach','-q',wt,'HEAD'])
    try:
        for name,f,old,new in M:
            if old is None: continue
            p=os.path.join(wt,f); s=open(p).read()
            if s.count(old)!=1:
                print('SKIP',name,'pattern count',s.count(old)); continue
            open(p,'w').write(s.replace(old,new))
            d=subprocess.check_output(['git','-C',wt,'diff']).decode()
            open(f'/verif/mutants/{name}.diff','w').write(d)
            subprocess.check_call(['git','-C',wt,'checkout','-q','--','.'])
            print('ok',name)
    finally:
        subprocess.run(['git','-C','/repo','worktree','remove','--force',wt]); subprocess.run(['rm','-rf','/tmp/mk'])
main()

#!/usr/bin/env python3-vt
"""Validates every /verif/evidence/*.json against /root/.vp/EVIDENCE.schema.json and MANIFEST.json against its schema."""
import json, glob, sys
import jsonschema
sch = json.load(open('/root/.vp/EVIDENCE.schema.json'))
bad = 0
for f in sorted(glob.glob('/verif/evidence/*.json')):
    e = json.load(open(f))
    try:
        jsonschema.validate(e, sch)
        print(f.split('/')[-1], 'ok', e.get('tier'), 'violations=%s' % e.get('violations'), 'wall=%s' % e.get('wall_s'))
    except jsonschema.ValidationError as x:
        bad += 1
        print(f, 'INVALID:', x.message[:200])
jsonschema.validate(json.load(open('/verif/MANIFEST.json')), json.load(open('/root/.vp/MANIFEST.schema.json')))
print('MANIFEST.json ok')
sys.exit(1 if bad else 0)

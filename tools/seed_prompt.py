#!/usr/bin/env python3
# tools/seed_prompt.py <ID> <round>  -- prints the prompt given to a fresh sub-agent for a seeded change.
# The agent gets the property text and its own scratch worktree, nothing from /verif.
import json,sys
pid,rnd=sys.argv[1],sys.argv[2]
p=[json.loads(l) for l in open('/verif/properties.jsonl') if json.loads(l)['id']==pid][0]
out='out'+('' if rnd=='1' else rnd)
extra={'1':'',
 '2':"An automated checker will be run against your change. It enumerates small scopes exhaustively (short inputs over a class alphabet, short operation sequences) and compares with a reference model. Aim for defects that are likely to ESCAPE small-scope enumeration: ones keyed on a specific real-world value, a long input, a rarely used entry point, a particular multi-step history, or two cooperating sites that each look fine alone.\n",
 '5':"An automated bounded-exhaustive checker with a reference model will be run against your change; it enumerates short inputs, single and double edits of well-formed inputs, every table row, pairs of consecutive calls and short mutation histories, through all the main entry points and the common trait impls. To escape it, make the change depend on something LARGER or RARER than that: a count threshold (more than N variants / keywords / attributes / tags / tfields, a Vec crossing a capacity boundary, a value list of several subtags), a history of at least three or four specific calls (state left behind by a failed call, by clear_* followed by set_*, by clone()/clone_from, by into_parts/from_parts, by maximize followed by a mutation), an iterator method other than next() (len, size_hint, rev, nth, last), a specific row or a specific pair of rows of the CLDR tables, a specific combination of three or more otherwise unremarkable subtags, the facade crates and their feature forwarding, or the Debug/Default/Clone/Hash/Borrow/AsRef impls -- whichever can break THIS property.\n",
 '4':"An automated bounded-exhaustive checker with a reference model will be run against your change; it already covers the main parsers and the obvious sites well. Put your change somewhere LESS obvious: a trait impl (Ord, PartialOrd, Hash, PartialEq<&str>, PartialEq<str>, AsRef, From, TryFrom, FromStr, Display, Default, Clone), a constructor or destructor (from_parts, from_raw_parts_unchecked, into_parts), a rarely used getter or mutator, the facade crates (unic-langid, unic-locale) and their re-exports and macro_rules, the proc-macro crates, the generator binaries under src/bin together with the regenerated table, or feature-gated code -- whichever can break THIS property. It should need something specific to manifest: a particular multi-step sequence of operations, an unusual input, a particular feature configuration, a specific relation between two values (one a prefix of the other, same object on both sides, neighbours in a table), or two cooperating sites that each look fine alone.\n",
 '3':"An automated bounded-exhaustive checker with a reference model will be run against your change. Aim for a change that needs something specific to manifest: a particular multi-step sequence of operations, an unusual input, a rarely used public entry point or trait impl, a particular feature configuration, or two cooperating sites that each look fine alone. Avoid the obvious spots (first thing one would mutate).\n"}
extra['6']=extra['5']
extra=extra[rnd]
print(f"""You are helping to evaluate a verification tool for the Rust workspace zbraniecki/unic-locale (crates that parse, canonicalize and serialize Unicode language and locale identifiers). Your job is to write two *independent*, realistic, subtle code changes ("a" and "b"), each of which BREAKS the following semantic property of the library while the workspace still compiles and its whole existing test suite still passes.

PROPERTY {pid}: {p['title']}
{p['statement']}

Your scratch git worktree of the repository is /tmp/seed/{pid}/repo (work ONLY there; never touch /repo or /verif, and do not read /verif). Build offline only: always use
  cd /tmp/seed/{pid}/repo && CARGO_NET_OFFLINE=true CARGO_TARGET_DIR=/tmp/seed/{pid}/target cargo <...> --offline
The existing suite is: cargo test --workspace --no-fail-fast --offline (run from the worktree root, with the env above). It must pass (0 failed) with each of your changes applied on its own.

Requirements for each change:
- It looks like something a maintainer could plausibly commit (a refactoring, 'optimisation', tidy-up, fast path, copy/paste slip), is small (a few lines to a few dozen), touches only library/generator/macro source (not tests, fixtures or data), and compiles without new warnings-as-errors.
- It breaks the property above for some inputs / histories, but needs something specific to manifest (not something any ordinary use exposes at once).
{extra}- Changes a and b must be different in kind (different site or different mechanism).
- Provide a demonstration: a single Rust integration test file that FAILS with the change and PASSES on the unmodified tree. Place it at a path like unic-langid-impl/tests/{pid.lower()}_demo_<v>.rs or unic-locale-impl/tests/{pid.lower()}_demo_<v>.rs (whichever crate suits; if a feature is needed say so in demo_cmd with --features ...). Verify both outcomes yourself (git stash / git checkout to switch).

Deliverables, for v in {{a, b}}, in /tmp/seed/{pid}/{out}/<v>/ :
  patch.diff  - output of `git diff` in the worktree containing ONLY the library change (not the demo file), applying cleanly with `git apply` to a clean checkout of HEAD
  demo.rs     - the demonstration test file
  meta.json   - JSON object with string fields: "property" ("{pid}"), "summary" (what was changed, where), "breaks" (which clause, with a concrete failing example), "needs" (what is required for it to manifest and why ordinary tests miss it), "demo_path" (path of the demo file relative to the worktree root), "demo_cmd" (the exact cargo test command, starting with `cd /tmp/seed/{pid}/repo && CARGO_NET_OFFLINE=true CARGO_TARGET_DIR=/tmp/seed/{pid}/target cargo test ...`), "baseline_tests" (what you ran and the counts)
When finished, leave the worktree clean (git checkout -- . ; remove the demo files from it) and report briefly what the two changes are.""")

#!/usr/bin/env python3
"""Prints a markdown table of what the evidence files under a directory record (DESIGN §0)."""
import json, sys, glob, os
d = sys.argv[1] if len(sys.argv) > 1 else '/verif/evidence'
print('| id | tier | states | transitions | distinct non-trivial | violations | wall s |')
print('|----|------|--------|-------------|----------------------|------------|--------|')
for f in sorted(glob.glob(os.path.join(d, 'C*.json'))):
    e = json.load(open(f)); c = e['coverage']
    print(f"| {e['property_id']} | {e['tier']} | {c.get('states',0):,} | {c.get('transitions',0):,} | {c.get('distinct_nontrivial',0):,} | {e.get('violations',0)} | {e['wall_s']} |")

#!/bin/bash
# tools/run_mutants.sh [pattern]  — runs every hand-made mutant (mutants/*.diff) against the check of the
# property named in its file name (cNN_...), with the repository's own suite first (BASELINE=1).
cd /verif
for f in mutants/${1:-*}.diff; do
  n=$(basename $f .diff); id=$(echo $n | cut -c1-3 | tr c C)
  BASELINE=1 tools/mutant.sh $n $f $id 2>&1 | grep -v "WARNING conda"
done

#!/bin/bash
# tools/mutant.sh <name> <patch.diff> <ID> [<ID>...]
# Applies <patch.diff> to a scratch git worktree of /repo (never to /repo itself), builds a copy
# of the checker against that worktree and runs the named checks (tier from $TIER, default
# quick).  With BASELINE=1 the repository's own test suite is run on the mutant first.
# Prints one line per check:  <name> <ID> exit=<code> <first VIOLATION/HELD line>
# Everything lives under /tmp/mt/<name> and is removed afterwards (KEEP=1 keeps it).
set -u
name=$1; patch=$(readlink -f "$2"); shift 2
root=/tmp/mt/$name
T=${MT_TARGET:-/tmp/mt/target}
rm -rf "$root"; mkdir -p "$root/out/work" $T
# the patch is applied to HEAD; a patch that was written against an earlier commit and no longer
# applies (a later fix: commit touched the same lines) is applied to its recorded base commit
# (MT_BASE, or base_commit in the meta.json next to the patch) -- the checks then also see
# whatever that fix repaired
base=HEAD
if ! git -C /repo apply --check "$patch" 2>/dev/null; then
  b=${MT_BASE:-$(python3 -c "import json,sys,os;print(json.load(open(os.path.join(os.path.dirname(sys.argv[1]),'meta.json'))).get('base_commit',''))" "$patch" 2>/dev/null)}
  [ -n "$b" ] && { base=$b; echo "$name (patch does not apply to HEAD; using its base commit $b)"; }
fi
git -C /repo worktree add --detach -q "$root/repo" $base || exit 2
cp /repo/Cargo.lock "$root/repo/Cargo.lock" 2>/dev/null
( cd "$root/repo" && git apply "$patch" ) || { echo "$name PATCH-DOES-NOT-APPLY"; git -C /repo worktree remove --force "$root/repo"; exit 2; }
export CARGO_NET_OFFLINE=true CARGO_TERM_COLOR=never
if [ "${BASELINE:-0}" = 1 ]; then
  ( cd "$root/repo" && CARGO_TARGET_DIR=$T-repo timeout -k 5 ${MT_BASELINE_TIMEOUT:-900} cargo test --workspace --no-fail-fast --offline >"$root/baseline.log" 2>&1 ) || echo "error[timeout-or-failure] baseline exit status $?" >>"$root/baseline.log"
  if grep -q "test result: FAILED\|error\[" "$root/baseline.log"; then echo "$name BASELINE-FAILS (see $root/baseline.log)"; grep -E "^test .* FAILED|^error" "$root/baseline.log" | head -5; else
    echo "$name baseline: $(grep -c '^test .* ok$' "$root/baseline.log") tests ok, 0 failed"; fi
fi
# the checker source: the COMMITTED tree (HEAD of /verif) unless MT_WORKTREE=1 -- so that a run started
# while files are being edited never picks up a half-edited checker
if [ "${MT_WORKTREE:-0}" = 1 ]; then rsync -a --exclude target /verif/mc/ "$root/mc/"; else mkdir -p "$root/mc" && git -C /verif archive HEAD mc | tar -x -C "$root"; cp /verif/mc/Cargo.lock /verif/mc/Cargo.toml "$root/mc/" 2>/dev/null; fi
sed -i "s|/repo/|$root/repo/|g" "$root/mc/mc/Cargo.toml"
( cd "$root/mc" && RUSTFLAGS="--cfg unic_locale_verif" CARGO_TARGET_DIR=$T cargo build --release --offline -q --features likelysubtags,serde -p mc 2>"$root/build.log" ) \
  || { echo "$name BUILD-FAILS"; tail -20 "$root/build.log"; [ "${KEEP:-0}" = 1 ] || { git -C /repo worktree remove --force "$root/repo"; rm -rf "$root"; }; exit 2; }
cp $T/release/mc "$root/mc-full"
needs_base=0; for id in "$@"; do case $id in C14|C20) needs_base=1;; esac; done
if [ $needs_base = 1 ]; then
  ( cd "$root/mc" && CARGO_TARGET_DIR=$T-base cargo build --release --offline -q -p mc 2>>"$root/build.log" ) || echo "$name BASE-BUILD-FAILS"
  cp $T-base/release/mc "$root/mc-base"
fi
for id in "$@"; do
  VERIF_REPO="$root/repo" VERIF_DIR="$root/out" VERIF_BASE_MC="$root/mc-base" VERIF_GEN_TARGET=$T-gen VERIF_C16_TARGET=$T-c16 VERIF_CONC_TARGET=$T-conc VERIF_C20_TARGET=$T-c20 VERIF_MC_SRC="$root/mc" \
    "$root/mc-full" run "$id" "${TIER:-quick}" >"$root/$id.out" 2>"$root/$id.err"
  code=$?
  line=$(grep -m1 -E "^VIOLATION|^KNOWN-FINDING|^HELD|^FAILED" "$root/$id.out"); [ -z "$line" ] && line=$(tail -1 "$root/$id.err")
  detail=$(grep -m1 -E "^\s+\[" "$root/$id.err" | cut -c1-300)
  echo "$name $id exit=$code $line"; [ -n "$detail" ] && echo "    $detail"
done
if [ "${KEEP:-0}" != 1 ]; then git -C /repo worktree remove --force "$root/repo"; rm -rf "$root"; fi
